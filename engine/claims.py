"""Registry of what each property's check claims; MANIFEST.json is generated from this (bin/gen-manifest)."""

CLAIMS = {
    "C08": {
        "technique": "interprocedural must-dataflow (typestate) over resolved MIR",
        "text": "Decides the property on an abstraction, for every path of the control-flow graph (hence every transport timing, "
                "chunking and handler): must-dataflow over the interprocedural event graph of Token::run and of every Request API "
                "the handler can call shows that at each transport read 'every buffered complete record was parsed' and 'both "
                "parsers' reply buffers were handed to the transport' hold (R8.1), and that parser conversions happen with a "
                "flushed reply buffer (R8.2); both parse() functions always drive their processing loop (R8.3); a stream switch never cancels a "
                "management body in flight, so its reply stays owed and is produced (R8.4). Found the three-site defect fixed in /repo e219e77.",
        "note": "Assumes parse() consumes every complete buffered record unless it returns data/end/error; write_all completes iff "
                "all bytes were accepted; while the handler runs only public Request APIs are called. Liveness of the executor is out of scope.",
        "design_ref": "DESIGN.md §4 C08, §5",
    },
}

CLAIMS["C12"] = {
    "technique": "path rules (must/may dataflow, cycle analysis) over the interprocedural MIR event graph",
    "text": "Decides, for every path of the connection task and of the poll-style Request/StreamWriter APIs (hence every fault position "
            "and chunking): each transport read/write count is compared with 0 before use and the zero edge returns ConnectionReset "
            "(preamble) / UnexpectedEof (in request) / WriteZero with no further I/O, for poll_write as for awaited write / write_vectored (R12.1, R12.4); no io::Result or parser Result is "
            "dropped uninspected and only the three enumerated errors are tolerated (R12.2); no READ/WRITE/PARSE/HANDLER event follows an "
            "observed, un-tolerated error (R12.3: nothing is written after a failed write, no handler for a failed preamble); every cycle "
            "contains a suspension, transport I/O, the handler or an iterator step and Pending is propagated (R12.5: no spinning); "
            "no prefix of the record stream - what an EOF or error at an arbitrary byte position leaves the parsers with - drives their framing code out of range (R12.7 = R3.11, E8); on every path an error-carrying Result is inspected before it is dropped, overwritten or goes out of storage (R12.8, path-sensitive form of R12.2: a result parked in a local and looked at on one branch only is reported). "
            "Does NOT decide absence of panics in the async glue itself (expect / assert in async_io).",
    "note": "Event semantics of futures-io traits as documented; handler assumed to propagate I/O errors (as the statement says); "
            "panic-freedom not decided.",
    "design_ref": "DESIGN.md §4 C12",
}

CLAIMS["C07"] = {
    "technique": "typestate / counting dataflow and value provenance over the interprocedural MIR event graph",
    "text": "Decides the ordering skeleton of the statement for every path (every transport timing and handler outcome): exactly one "
            "handler invocation per constructed Request, on the Request wrapping the preamble's stream parser (R7.1); close() gets the "
            "handler's status or ExitStatus::ABORT (R7.2); inside close(): set_stream(None), record-boundary drain and reply flush precede "
            "the epilogue, exactly one epilogue write on every Ok path through the try_unwrap'd writer, nothing written after it, epilogue "
            "built from the request's id, close()'s status and output_streams() iff writeable (R7.3); reuse iff KeepConn, ConnectionReset "
            "otherwise, and run() re-enters the preamble phase only with close()'s Ok value (R7.4); the hand-off to the next request keeps the "
            "unread input (R7.5), the buffer is compacted before every in-request read (R7.6), a stream switch always demotes a record of the "
            "old stream in flight and close() never drives the parser at a record boundary (R7.7), pending management replies are drained by exactly the "
            "count the transport accepted so none is sent twice before the epilogue (R7.8); close() reads the writeable flag only after it awaited writeable() (R7.3); "
            "in the async read interfaces nothing that can return Pending / Err runs between a productive parse and returning its count, and transport counts reach "
            "Parser::parse before any return, so a delayed write side cannot make the handler lose input (R7.9 = R9.3 / R9.7); close() gives up the request's own hold on the output lock on every path before it asks for sole ownership of the output (R7.10, must-dataflow), so a request closed right after a write cannot time out on itself. Does NOT decide byte-level output "
            "correctness per transport split, nor that the handler sees exactly the request's environment/streams beyond these necessary conditions (C01/C02/C09).",
    "note": "Parser APIs are events with their documented meaning; make_request_epilogue's own encoding is C17's subject.",
    "design_ref": "DESIGN.md §4 C07",
}

CLAIMS["C13"] = {
    "technique": "construction-site / provenance / who-may-call analysis over resolved MIR",
    "text": "Decides the safety sentence (never more tokens than max_conns) structurally, given a semaphore that never hands out more "
            "than its permits: Token has one construction site whose permit field is the awaited acquire_arc on the runner's semaphore "
            "(R13.1); the semaphore is created once with config.max_conns.get() and every Runner (incl. Clone) shares it (R13.2); no leak "
            "primitive exists anywhere in the crate and the permit field is never touched, Token is not Clone (R13.3, with a positive "
            "fixture proving the matcher fires); no field is ever moved out of a Token, so the permit lives exactly as long as the value handed to "
            "the connection task (R13.4); in every async body that owns a Token on entry (Token::run's coroutine and whatever the token is handed on to) "
            "an ownership dataflow shows the token, or a value it was moved into, still owned at every suspension point: no await is reachable after its holder was dropped "
            "or consumed, so an unfinished Token::run future always holds its slot (R13.5). Does NOT decide sentences 2-3 (immediate completion, wake-ups of queued requests, "
            "cancellation): those are async-lock's behaviour.",
    "note": "async_lock::Semaphore / SemaphoreGuardArc semantics trusted; get_token having a single suspension point is checked as a necessary condition of 'completes immediately'.",
    "design_ref": "DESIGN.md §4 C13",
}
CLAIMS["C14"] = {
    "technique": "ordering (must-dataflow) rules on single-function CFGs + cancellation-region analysis on the event graph",
    "text": "Decides the obligations of the no-lost-wakeup argument and the cancellation structure, for every path / interleaving-independent: "
            "Drop of the shared wait-group value wakes unconditionally and uses the same waker field that poll registers (R14.1); the shutdown "
            "future registers the waker before its upgraded Arc can die, None=>Ready, Some=>Pending (R14.2); shutdown consumes the runner, "
            "notifies usize::MAX listeners on every path before returning a future that only holds a Weak (R14.3); in run() the only "
            "cancellable region is select(stop, preamble) with stop first, handler and close() lie outside it and the stop arm returns with "
            "no further I/O (R14.4); on every path from a suspension of the connection task (or its start) to a handler invocation the stop "
            "listener is polled first, so no handler begins in a scheduling step that started after shutdown() (R14.5); every Runner value, clones included, owns a fresh wait group and stop event (R14.6). The implication to the statement is the hand argument in DESIGN.md; scheduler liveness and the "
            "linearizability of AtomicWaker/event-listener are trusted.",
    "note": "futures_util::future::select polls its first argument first (0.3.31, read in the registry source); AtomicWaker register/wake linearizable.",
    "design_ref": "DESIGN.md §4 C14",
}

CLAIMS["C10"] = {
    "technique": "who-may-write and lock typestate analysis over the MIR event graph; field-write provenance",
    "text": "Decides the exclusion and framing skeleton for every poll order and every transport split: all transport writes/flushes go "
            "through the shared mutex guard kept by the repeatable lock future, or an exclusively owned writer (R10.1); the guard is released "
            "only at a record boundary - after the remaining-lengths test reads zero / after the reply buffer was seen empty, with no data "
            "write in between, never on Pending/Err/WriteZero paths (R10.2); a record is (re)started only when a new lock future is created, "
            "mid-record the header fields change only by written amounts (R10.3); the iov triple is header-tail, payload-tail of "
            "buf[..orig_len], padding, in order, and the success return is the truncated slice's length (R10.4); reply bytes are consumed "
            "only by the amount confirmed written (R10.5); the padding every record is started with is 0 or 8 - content % 8 for every content length "
            "(R10.6 = R17.6). Does NOT decide the arithmetic that distributes a partial vectored write over the three slices.",
    "note": "futures Mutex exclusion and OwnedMutexGuard semantics trusted; implicit release by dropping a writer mid-record is outside the statement ('each successful write').",
    "design_ref": "DESIGN.md §4 C10",
}

CLAIMS["C17"] = {
    "technique": "constant/table agreement against a hand-written spec table; decision-table and byte-layout extraction by path enumeration with term substitution",
    "text": "Decides the table- and layout-shaped clauses: enum discriminants, wire constants, flag bits and the strum/TryFrom decode tables "
            "equal the FastCGI specification (R17.1); From<ExitStatus> equals the documented table and ABORT == Complete(b\"ABRT\") (R17.2); "
            "each to_record places a {V1, own type, id, 8, 0} header before its body (R17.3); the end-of-request sequence is (empty stream "
            "header)* EndRequest(status,id) (R17.4); write_response emits one GetValuesResult for id 0 with config.max_conns / \"0\", appended "
            "after existing contents, on every return path (the empty subset included), with the header exactly as set_lengths sized it (no other write to its length fields), and RESPONSE_LEN covers the maximum by constant arithmetic (R17.5); the padding rule is {0, 8-r} (R17.6); "
            "to_bytes/from_bytes of the four wire structs agree with each other and the spec layout, big-endian (R17.7); the version is "
            "validated before the type (R17.8); the stream list of the end-of-request sequence sent by Request::close is chosen from the writeable flag "
            "only after close() made the request writeable (R17.9 = R7.3), so it is the role's output streams; the integer conversions the layouts go through "
            "are the identity on the encoded value - enum -> integer is the discriminant, RequestFlags <-> u8 keep every bit (R17.10). Does NOT decide round-trip equality over all field values, reserved-byte behaviour, or the "
            "arithmetic inside nv::write / integer formatting.",
    "note": "spec/fastcgi.json is written from the FastCGI specification and the crate documentation, not from the code.",
    "design_ref": "DESIGN.md §4 C17",
}

CLAIMS["C15"] = {
    "technique": "decision-table extraction + constant and construction-site checks; cell-wise reaching definitions over byte terms (engine E9) for the codec bodies",
    "text": "Decides six structural obligations whose conjunction implies the statement by the hand proof in DESIGN.md: MAX == 2^31-1 (O1; the long-form bit 0x80 "
            "is the specification's constant inside the O4 tables, whatever the source calls or however it spells it); TryFrom<u32> fails exactly for v > MAX and TryFrom<usize> delegates through u32 (O2); VarInt values are "
            "constructed only at range-preserving sites (O3); on every path the decoder yields VarInt(in[0]) after one byte when in[0] & LONG_BIT == 0 and "
            "VarInt(from_be_bytes[in[0] & !LONG_BIT, in[1], in[2], in[3]]) after four otherwise, the encoder writes [self.0 as u8] when self.0 < LONG_BIT and "
            "[be(self.0)[0] | LONG_BIT, be[1], be[2], be[3]] otherwise - tables of normalised byte terms per path, independent of how the scratch arrays are "
            "laid out (O4); the reader is touched through read_exact only and Err is returned only when a read failed, so truncation yields its "
            "UnexpectedEof (O5); the encoder returns Ok(n) only after every write_all succeeded, n being the number of bytes handed to it (O6). The implication itself is not "
            "machine-checked and no value is enumerated: the bijection as a computed fact is NOT decided.",
    "note": "read_exact / write_all contracts of std::io trusted.",
    "design_ref": "DESIGN.md §4 C15",
}

CLAIMS["C04"] = {
    "technique": "decision-table extraction from resolved MIR (path enumeration, term substitution) compared with a specification oracle; who-may-write / pairing rules",
    "text": "Decides who is answered with what as a finite table: the decision tables of the three header-dispatch sites (request parser before "
            "and during Params, stream parser) are extracted on every path and compared row by row with an oracle written from the FastCGI "
            "specification - reply constructor, protocol status, application status 0, id provenance (sender's id vs. request id), exactly "
            "one append per owed row and none otherwise, next state, header consumption, whether the drive loop goes on (a handled record never hands control "
            "back with input pending) and agreement of the three siblings; a path that does not test an atom is compared on every input it covers (R4.1); a "
            "GetValuesResult is emitted only when the whole remaining body is present, once, for a non-empty body, with the name-value "
            "decoder's input no longer than the record's remaining payload at every construction (E8 obligation) (R4.2); reply buffers are append-only except at the documented reset points (R4.3); "
            "reported counts equal appended bytes (R4.4); a pending GetValues body cannot be discarded by other APIs (R4.5); every call of request::Parser::parse clears the reply buffer before it "
            "drives or yields, so no reply is handed out twice (R4.6 = R3.2); a queried name selects a variable only through the generated exact-name lookup from_name, "
            "never through the flags' text parser, from_bits or a literal (R4.7). Does NOT decide "
            "which variables a body split at an arbitrary offset contributes (name-value prefix-monotonicity, C16) nor the arithmetic of "
            "consume_output(k) interleavings.",
    "note": "The oracle (engine/rules/c04.py: oracle) is hand-written from the FastCGI specification sections 3.3, 4, 5.1, 5.5; to_record / write_response encodings are C17's subject.",
    "design_ref": "DESIGN.md §4 C04",
}

CLAIMS["C20"] = {
    "technique": "event-language check and symbolic byte-count ledger over enumerated MIR paths (loops unrolled 0..2 times)",
    "text": "Decides the property for every Write implementation honouring write_all's contract: on every successful path the sequence of "
            "write_all arguments equals the documented grammar - status-line template with the three code bytes copied from "
            "status.as_str(), canonical reason or \"Custom\", then (\"\\n\" name \": \" value) per iterator item in order, then "
            "\"\\n\\n\"; \"Location: \" loc \"\\n\\n\" for the redirect (R20.1); the returned count equals the sum of written lengths as linear "
            "expressions over len() atoms on every path (R20.2); only write_all is used and every result is `?`-propagated, so an exhausted "
            "destination fails instead of reporting success (R20.3); http_headers delegates with the response's status and header iteration "
            "order. Requires feature http (not compiled by the pinned suite).",
    "note": "write_all's contract (all bytes or Err) trusted; http::StatusCode::as_str / canonical_reason are the dependency's.",
    "design_ref": "DESIGN.md §4 C20",
}
CLAIMS["C11"] = {
    "technique": "decision-table rows, conversion-table extraction and ordering dataflow over resolved MIR",
    "text": "Decides each link of the abort chain structurally: Params-state row for an AbortRequest of the request id = exactly one "
            "EndRequest{RequestComplete,0} for that id and return to the initial state, other ids skipped (R11.1); stream-parser row = "
            "Err(AbortRequest) with the header retained, constructed only in the header dispatch (R11.2); AbortRequest converts to "
            "ConnectionAborted, whole table as documented (R11.3); run() selects ExitStatus::ABORT exactly under kind()==ConnectionAborted "
            "of the handler's error and still calls close(); ABORT == Complete(b\"ABRT\") (R11.4); exactly three tolerated errors exist and "
            "the record-boundary drain consults the boundary predicate after every parse before reading again (R11.5); the next request "
            "parser skips the retained AbortRequest without replying (R11.6); the request parser's reply buffer (the abort's EndRequest) is flushed "
            "before every parser conversion (R11.7); the body and padding of an abort record of any length are skipped with arithmetic that cannot overflow or truncate (R11.8 = R3.11 for into_skip / SkipState::drive). With C07's R7.3/R7.4 this gives exactly one EndRequest and "
            "reuse under KeepConn. Does NOT decide that input delivered before the error is a prefix of what was sent (C02-level).",
    "note": "Reuses the extraction code of C04 / C07 / C12 and reports under C11's rule ids.",
    "design_ref": "DESIGN.md §4 C11",
}

CLAIMS["C18"] = {
    "technique": "finite-table agreement and decision-table extraction over resolved MIR; field-writer analysis",
    "text": "Decides the finite, table-shaped part of the statement: Role::next_input_stream agrees with the constant slices of "
            "Role::input_streams / output_streams, with the stream-type predicates and with the specification (R18.1); set_stream rejects "
            "before any field write and only on the `Less` verdict, a different stream demotes Stream->Skip under its guard, discards "
            "buffered data and assigns, the same stream touches nothing (R18.2); the header dispatch skips earlier streams, delivers the "
            "active one, holds back its empty record and any later stream as end-of-stream, with cmp(role, header type, active stream) "
            "(R18.3); the active-stream field is written only by set_stream and initialised to the role's first stream (R18.4); the async "
            "layer feeds the verdict to expect (R18.5); a stream switch leaves an empty parsed region and keeps the unparsed protocol bytes, and "
            "stream_buffer / consume_stream expose exactly the parsed region (R18.6 = R3.10 geometry of discard_stream). Does NOT decide the loop inside cmp_input_streams (the pinned stream_order test "
            "enumerates its 3x2x3 table).",
    "note": "spec/fastcgi.json role tables are hand-written from the FastCGI specification section 6.",
    "design_ref": "DESIGN.md §4 C18",
}

CLAIMS["C03"] = {
    "technique": "decision-table rows and path rules over resolved MIR; path-sensitive abstract interpretation of the buffer bookkeeping in linear cursor forms (Fourier-Motzkin entailment, loop invariant check-and-havoc)",
    "text": "Decides the structural clauses: Done/Fatal are sticky - State::drive returns them untouched without driving or emitting (R3.1); "
            "request::Parser::parse clears its output then drives the state machine on every return path, with no early-out, and stores "
            "StuckOnInput as Fatal (R3.2); the panic fallback is Fatal(Paniced) (R3.3); every Err exit of the stream parser's header "
            "dispatch leaves the parser untouched, so the error repeats and nothing more is emitted (R3.4); decode failures are classified "
            "identically at the three header sites - unknown version: error without consuming, unknown type: one reply and skip (R3.5); "
            "the parser-error -> io::ErrorKind table is total and as documented (R3.6); conversions at non-final states fail with "
            "Interrupted before any mutation (R3.7); stream::Parser::parse always enters its processing loop (R3.8). Buffer bookkeeping (E8): "
            "compress / consume_stream / discard_stream / move_input keep the cursor invariant, never overwrite live bytes and leave every live "
            "region where the new cursors point (R3.10); in both parsers' framing code (stream parse / parse_payload / parse_head, request parse, "
            "Skip / GetValues / Params / Header drives) every subtraction, u8/u16 addition, narrowing cast, slice, split_at, copy_within and "
            "indexed access is proved in range on every path from the types' ranges, the path condition and the cursor invariant (R3.11; in parse_buffered, whose value-level "
            "length arithmetic the domain cannot follow, a split / slice / index site is reported when it is derivable on some paths and not on others, or refuted by the path condition). "
            "No hang: every iteration of stream::Parser::parse's loop strictly shrinks the unparsed input (R3.12, loop variant checked by E8 against verified "
            "callee postconditions), and request::State::drive feeds each drive's Continue back unchanged, Header/Params drives consume on every Continue, "
            "Skip/GetValues drives hand over to a consuming or final state without growing the input and stop only while their record is incomplete (R3.13). "
            "A record state in flight is replaced only where C04 R4.5 allows (R3.14: the reply to a partially received GetValues cannot depend on when set_stream is called). "
            "The fatal StuckOnInput verdict is taken on the buffer fill left after the drive and the compaction, not on the fill at call entry, which the chunking decides (R3.15 = R6.2). "
            "The length decoder that parse_buffered unwraps and NVIter reads as 'incomplete' fails only on truncated input (R3.16 = C15 O4-read / O5). "
            "Does NOT decide panics outside those obligations (expect/unwrap on Option/Result values, e.g. in parse_buffered's length "
            "arithmetic: inventory reported as information) nor chunking-invariance of outcomes beyond these necessary conditions.",
    "note": "R3.11 assumes three callee contracts (io::Write::write returns n <= buf.len(); NVIter only shrinks its slice, see C16 R16.1/R16.2; the remainder "
            "returned through replace_with_and_return is a reborrow of input[..input_len]); the crate-local contracts (parse_stream, parse_buffered, "
            "parse_payload, parse_head) are verified as postconditions.",
    "design_ref": "DESIGN.md §4 C03",
}
CLAIMS["C05"] = {
    "technique": "hand-off provenance rules on enumerated MIR paths; abstract interpretation with byte-region tracking (E8) for what is handed over; must-dataflow on the interprocedural event graph (R5.5)",
    "text": "Decides the structural part of each hand-off: into_request / into_stream_parser pass exactly (input buffer, input_len) and "
            "convert only final states (R5.1, R5.2); the stream parser's constructor starts all cursors at 0 with free_start = that length; "
            "into_request_parser / into_input return Err(Interrupted) untouched off a record boundary, otherwise discard buffered stream data "
            "and hand over (buffer, n) with the unparsed input [raw_start, free_start) located at [0, n) of the buffer (E8 region tracking through discard and "
            "compaction, whatever their spelling); the request parser's constructor stores that length and starts in the initial state (R5.3); the "
            "request parser's compaction - in move_input, or written out in parse - leaves the drive's remainder at [0, input_len) (R5.4, E8); in the async layer close() never drives the stream parser while it stands at a record boundary, where buffered bytes belong to "
            "the next request (R5.5, must-dataflow on the event graph); parse() accounts for new_input on every return path, final states included (R5.6 = R3.2); unread records are skipped with exact arithmetic for any amount of look-ahead (R5.7 = R3.11 for into_skip / SkipState::drive); a finished request parser may be fed look-ahead up to a full buffer without becoming a failed one (R5.8 = R6.2); a byte count is handed to Parser::parse at most once - no retry or `continue` reaches a parse call with a count an earlier call already took (R5.9, may-dataflow over the locals of the async layer). Does NOT decide the behavioural consequence (k sequential requests == k separate connections).",
    "note": "copy_within / Vec::truncate semantics of std trusted.",
    "design_ref": "DESIGN.md §4 C05",
}
CLAIMS["C06"] = {
    "technique": "path rules on request::Parser::parse and the Params framing (record-end discipline), allocation-size provenance, expression-shape check",
    "text": "Decides sentence 2 of the statement outright: on every return path of request::Parser::parse, after the drive and the "
            "compaction, a non-final parser either has input_len != input.len() (so input_buffer() = input[input_len..] is non-empty) or "
            "stores Fatal(StuckOnInput) and reports done from that very call, and StuckOnInput is stored in no other case (R6.2); both "
            "parsers allocate config.aligned_bufsize() bytes (R6.1); aligned_bufsize has the shape {<=24 -> 24, overflow -> usize::MAX, "
            "else (n+7) & !7} (R6.3, shape only). For sentence 1 it decides two necessary conditions named by the statement's mechanism: the "
            "payload goes to parse_stream with rec_end = false exactly under data.len() < payload_rem and otherwise as data[..payload_rem] with "
            "rec_end = true (R6.4), and with rec_end every unparsed byte is moved to the heap-side pair buffer and reported consumed (R6.5) - so a "
            "fragment at a record end never waits in the input buffer for padding; a partially received GetValues body is consumed pair by pair "
            "(R6.6). R6.3 is decided on values (E8): result >= buffer_size, >= 24, multiple of 8. A parser's config is never replaced after construction without the buffer that belongs to it (R6.7). Does NOT decide the arithmetic sufficiency of B-13 itself.",
    "note": "usize::MAX is returned when buffer_size + 7 overflows (documented corner, accepted by R6.3).",
    "design_ref": "DESIGN.md §4 C06",
}

CLAIMS["C16"] = {
    "technique": "path rules and provenance over resolved MIR; sibling-implementation comparison; symbolic byte-count ledger",
    "text": "Decides the structural clauses: every None path of the decoder leaves its data untouched, so it stops for good and into_inner "
            "returns the undecoded suffix (R16.1); a pair is split off only under data.len() >= total_len with total_len = bytes consumed "
            "by the two length prefixes (the advancing cursor) + name_len + val_len, all via checked_add, and is carved as "
            "prefix.advance_by(head).split_at(name_len) (R16.2); one generic Iterator impl serves shared and mutable slices and the two "
            "Bytes impls have the same shape (R16.3); the encoder validates lengths through VarInt::try_from (InvalidInput), writes "
            "prefix, prefix, name, value and returns exactly the bytes written (R16.4); size_hint is (0, len/2) (R16.5); the prefix encoder nv::write relies on emits the "
            "complete one- or four-byte form through write_all for every writer and returns exactly that count (R16.6 = C15 O4-write / O6), and the prefix decoder the iterator relies on fails only on truncated "
            "input (R16.7 = C15 O4-read / O5). Zero-copy is a "
            "type-level fact (witness). Does NOT decide round-trip equality, prefix-monotonicity over all inputs, or the size-hint "
            "inequality as computed facts.",
    "note": "VarInt::read/write behaviour is C15's subject.",
    "design_ref": "DESIGN.md §4 C16",
}

CLAIMS["C19"] = {
    "technique": "delegation / decision-table rules and a taint rule over enumerated MIR paths; constant-table check",
    "text": "Decides the structural clauses: the owned name's hash is exactly the borrowed view's hash (same write sequence for any Hasher) "
            "and as_var / Borrow return the view of the same string (R19.1); eq / cmp take the interned fast path only for Static x Static "
            "and otherwise delegate to VarName (R19.2); VarName::eq is eq_ignore_ascii_case, cmp folds both sides with to_ascii_uppercase, "
            "and every buffer handed to Hasher::write was upper-cased after input bytes were last copied into it (R19.3); the interned "
            "string table is total, all [A-Z0-9_], injective and equal to the variant names, and interned names are ordered by their "
            "strings (R19.4); normalising constructors reach construction only through from_compact, which folds before parsing and looks up the whole folded name, not a trimmed or sliced one (R19.5); "
            "header mapping uses \"HTTP_\", '-' and '_' (R19.6); the generated parse table (the entries of strum's phf map) accepts exactly the canonical string of "
            "each variant, no aliases (R19.7). Does NOT decide prefix-freeness of the 16-byte chunked hashing nor "
            "totality/antisymmetry of the order as computed facts.",
    "note": "the phf lookup algorithm itself is trusted; its entries are checked against the generated Into<&'static str> table (R19.7).",
    "design_ref": "DESIGN.md §4 C19",
}

CLAIMS["C09"] = {
    "technique": "delegation / pairing rules and must-dataflow over the MIR event graph of the read APIs",
    "text": "Decides the structural clauses for every poll sequence and transport pattern: poll_read / poll_fill_buf / consume delegate to the "
            "stream parser and its stream buffer, and the caller's buffer is written only by the parser or by the copy out of stream_buffer() "
            "(R9.1); bytes copied out are consumed by exactly the copied amount on every path, poll_fill_buf never consumes (R9.2); after a "
            "parse nothing that can return Pending/Err runs unless the parse reported neither data nor end-of-stream, so delivered bytes and "
            "end-of-stream are never dropped, and the success count is the parse's / the copy's count (R9.3); the writeable flag is only "
            "raised, under the single-input-stream test in the constructor or under is_final_stream() after data/end of the active stream "
            "(R9.4); StreamWriters are constructed only behind the writeable and role-membership asserts with the request's id (R9.5); "
            "writeable() selects the role's last input stream (R9.6); in the poll-style read interfaces a byte count returned by the transport is committed "
            "with Parser::parse(n) before the function can return or read again, so no transport segment is overwritten after a Pending (R9.7); "
            "the parser-level set_stream behind the async stream selection demotes a record in flight and discards buffered data on every path that changes the stream (R9.8 = R18.2). Does NOT decide the exact bytes for every poll sequence nor EOF "
            "persistence (the stream parser's behaviour: C02/C18).",
    "note": "stream::Parser::parse / stream_buffer / consume_stream are events with their documented meaning.",
    "design_ref": "DESIGN.md §4 C09",
}

CLAIMS["C01"] = {
    "technique": "value-provenance, who-may-mutate and decision-table rules over resolved MIR",
    "text": "Decides necessary conditions taken from the statement's own wording: every key inserted into the environment is "
            "from_compact(from_utf8_lossy(name)) - lossily decoded, upper-cased (R1.1); the map is mutated only through overwriting APIs "
            "(insert / extend), never entry / try_insert / remove / clear, so the last value wins at the map level (R1.2); the Request is "
            "built from the wire id and the BeginRequest body at bytes 8..16, and copies role and flags (R1.3); the Params dispatch rows "
            "are {own id & empty => done, own id & data => continue with (content_length, padding_length), else untouched} (R1.4); across "
            "all framing implementations a payload counter is only assigned the header's content_length, itself minus a consumed amount, "
            "or 0, and a padding counter likewise from padding_length (R1.5); the buffer really has at least the configured size the statement's "
            "premise speaks of (R1.6); the framing code and the pair decoder agree on how many bytes of a pair that crosses a record boundary went into the pair buffer (R1.7 = R6.4 + R6.5); the request parser for the next request of a kept connection starts at the unread input (R1.8 = R5.3); look-ahead fed to a parser that is already done does not replace the decoded request with StuckOnInput (R1.9 = R6.2); the pair buffer that collects a pair across record boundaries is emptied only on paths that inserted the pair (R1.10, must-dataflow). Does NOT decide equality of the decoded map for every record "
            "cut / read cut / buffer size: the cross-record reassembly arithmetic (parse_buffered, try_fill!) is value-level.",
    "note": "Name-value decoding itself is C16's subject; case-insensitive lookup is C19's.",
    "design_ref": "DESIGN.md §4 C01",
}
CLAIMS["C02"] = {
    "technique": "decision-table rows, same-quantity accounting on enumerated MIR paths, reference-provenance check",
    "text": "Decides necessary structural conditions of exact delivery: the delivering state is entered at exactly one dispatch row (active "
            "stream, own id, non-empty record) and constructed nowhere else (R2.1); bytes reach the caller's buffer / the parsed region / "
            "Status.stream only in that state (R2.2); in the delivering arm one value n drives Status.stream += n, raw_start += n, "
            "payload_rem -= n and (buffered mode) gap_start += n with copy_within of exactly n bytes from raw_start (R2.3: each byte once); "
            "the empty record of the active stream and any later stream are held back untouched and reported as end (R2.4); a stream "
            "change demotes and discards, and parse asserts an empty stream buffer before delivering into a caller buffer (R2.5); all "
            "records of one call deliver through the same advancing caller-buffer cursor (R2.6); compress / consume_stream / discard_stream / stream_buffer keep every live byte region where the cursors say, also after partial consumption (R2.7 = R3.10, E8); delivered bytes are also reported through the async read interfaces (R2.8 = R9.3 + R9.7); stream::Parser::parse constructs an error only where a record header is dispatched - the loop, the payload step and helpers, which see cursors and buffer sizes only, construct none, so the schedule never decides success (R2.9). Does NOT decide byte-exactness under all "
            "fill / consume / compress schedules (four-cursor geometry arithmetic).",
    "note": "cmp_input_streams' loop is covered by the pinned stream_order test; C18 covers the tables around it.",
    "design_ref": "DESIGN.md §4 C02",
}

PENDING_REASON = "rules for this property are not built yet (build in progress; DESIGN.md §7 gives the order)"
