"""Registry of what each property's check claims; MANIFEST.json is generated from this (bin/gen-manifest)."""

CLAIMS = {
    "C08": {
        "technique": "interprocedural must-dataflow (typestate) over resolved MIR",
        "text": "Decides the property on an abstraction, for every path of the control-flow graph (hence every transport timing, "
                "chunking and handler): must-dataflow over the interprocedural event graph of Token::run and of every Request API "
                "the handler can call shows that at each transport read 'every buffered complete record was parsed' and 'both "
                "parsers' reply buffers were handed to the transport' hold (R8.1), and that parser conversions happen with a "
                "flushed reply buffer (R8.2). Found the three-site defect fixed in /repo e219e77.",
        "note": "Assumes parse() consumes every complete buffered record unless it returns data/end/error; write_all completes iff "
                "all bytes were accepted; while the handler runs only public Request APIs are called. Liveness of the executor is out of scope.",
        "design_ref": "DESIGN.md §4 C08, §5",
    },
}

PENDING_REASON = "rules for this property are not built yet (build in progress; DESIGN.md §7 gives the order)"
