"""Registry of what each property's check claims; MANIFEST.json is generated from this (bin/gen-manifest)."""

CLAIMS = {
    "C08": {
        "technique": "interprocedural must-dataflow (typestate) over resolved MIR",
        "text": "Decides the property on an abstraction, for every path of the control-flow graph (hence every transport timing, "
                "chunking and handler): must-dataflow over the interprocedural event graph of Token::run and of every Request API "
                "the handler can call shows that at each transport read 'every buffered complete record was parsed' and 'both "
                "parsers' reply buffers were handed to the transport' hold (R8.1), and that parser conversions happen with a "
                "flushed reply buffer (R8.2). Found the three-site defect fixed in /repo e219e77.",
        "note": "Assumes parse() consumes every complete buffered record unless it returns data/end/error; write_all completes iff "
                "all bytes were accepted; while the handler runs only public Request APIs are called. Liveness of the executor is out of scope.",
        "design_ref": "DESIGN.md §4 C08, §5",
    },
}

CLAIMS["C12"] = {
    "technique": "path rules (must/may dataflow, cycle analysis) over the interprocedural MIR event graph",
    "text": "Decides, for every path of the connection task and of the poll-style Request/StreamWriter APIs (hence every fault position "
            "and chunking): each transport read/write count is compared with 0 before use and the zero edge returns ConnectionReset "
            "(preamble) / UnexpectedEof (in request) / WriteZero with no further I/O (R12.1, R12.4); no io::Result or parser Result is "
            "dropped uninspected and only the three enumerated errors are tolerated (R12.2); no READ/WRITE/PARSE/HANDLER event follows an "
            "observed, un-tolerated error (R12.3: nothing is written after a failed write, no handler for a failed preamble); every cycle "
            "contains a suspension, transport I/O, the handler or an iterator step and Pending is propagated (R12.5: no spinning). "
            "Does NOT decide absence of panics in the glue (arithmetic, slicing, expect).",
    "note": "Event semantics of futures-io traits as documented; handler assumed to propagate I/O errors (as the statement says); "
            "panic-freedom not decided.",
    "design_ref": "DESIGN.md §4 C12",
}

PENDING_REASON = "rules for this property are not built yet (build in progress; DESIGN.md §7 gives the order)"
