#!/bin/bash
# selftest/benign_all.sh [diff ...]: every behaviour-preserving refactoring in selftest/benign/ must leave ALL checks silent
V=$(cd "$(dirname "$0")/.." && pwd)
cd "$V"
fail=0
run_one() {
  d=$1
  W=$(mktemp -d /tmp/fcgi-bn.XXXXXX)
  git -C /repo worktree add -q --detach "$W/wt" HEAD || return 99
  if ! (cd "$W/wt" && git apply "$d"); then echo "$(basename $d): SKIP (does not apply)"; git -C /repo worktree remove --force "$W/wt"; rm -rf "$W"; return 0; fi
  res=""
  for p in C01 C02 C03 C04 C05 C06 C07 C08 C09 C10 C11 C12 C13 C14 C15 C16 C17 C18 C19 C20; do
    out=$(FCGI_VERIF_REPO="$W/wt" FCGI_VERIF_EVIDENCE="$W/ev" FCGI_VERIF_FACTS_CACHE="$V/.cache/facts-cache" bin/fcgi-verif check $p 2>&1)
    if [ $? -ne 0 ]; then k=$(echo "$out" | grep "key:" | head -2 | sed 's/.*key: //' | tr '\n' ' '); res="$res $p[$k]"; fi
  done
  git -C /repo worktree remove --force "$W/wt"; rm -rf "$W"
  if [ -n "$res" ]; then echo "$(basename $d): FALSE ALARM $res"; return 1; else echo "$(basename $d): all 20 checks silent"; return 0; fi
}
export -f run_one; export V
ls ${@:-$V/selftest/benign/*.diff} | xargs -n1 readlink -f | xargs -P ${BENIGN_JOBS:-6} -I{} bash -c 'run_one {}' | if [ -n "$BENIGN_STREAM" ]; then cat; else sort; fi
