#!/usr/bin/env python3
"""Run the self-validation corpus: selftest/run.py [PROP|id ...]  (all if none given)."""
import json, os, subprocess, sys, tempfile, shutil
V = os.path.dirname(os.path.dirname(os.path.abspath(__file__)))
sys.path.insert(0, os.path.join(V, "selftest"))
import mutants

def sh(cmd, cwd=None, env=None):
    return subprocess.run(cmd, cwd=cwd, env=env, capture_output=True, text=True)

def run_one(m, check_tests=False):
    w = tempfile.mkdtemp(prefix="fcgi-mut.")
    wt = os.path.join(w, "wt")
    try:
        r = sh(["git", "-C", "/repo", "worktree", "add", "-q", "--detach", wt, "HEAD"])
        if r.returncode != 0:
            return "ERROR worktree: " + r.stderr
        if m.get("base"):
            # compound test: a behaviour-preserving refactoring from the benign corpus first, the breaking edit on top
            r = sh(["git", "apply", os.path.join(V, "selftest", "benign", m["base"] + ".diff")], cwd=wt)
            if r.returncode != 0:
                return "ERROR base patch does not apply: " + r.stderr[-200:]
        p = os.path.join(wt, m["file"])
        src = open(p).read()
        if src.count(m["old"]) != 1:
            return "SKIP (anchor text occurs %d times)" % src.count(m["old"])
        src = src.replace(m["old"], m["new"])
        for ex in m.get("extra", []):
            if len(ex) == 3:
                f2, o2, n2 = ex
                p2 = os.path.join(wt, f2)
                s2 = open(p2).read()
                if s2.count(o2) != 1:
                    return "SKIP (extra anchor occurs %d times)" % s2.count(o2)
                open(p2, "w").write(s2.replace(o2, n2))
                continue
            o2, n2 = ex
            if src.count(o2) != 1:
                return "SKIP (extra anchor occurs %d times)" % src.count(o2)
            src = src.replace(o2, n2)
        open(p, "w").write(src)
        env = dict(os.environ, CARGO_NET_OFFLINE="true", CARGO_TARGET_DIR=os.path.join(V, ".cache", "target-mut"))
        r = sh(["cargo", "check", "--offline", "--all-features", "-q"], cwd=wt, env=env)
        if r.returncode != 0:
            return "ERROR does not compile: " + r.stderr[-400:]
        if check_tests:
            r = sh(["cargo", "test", "--offline", "-q"], cwd=wt, env=env)
            if r.returncode != 0:
                return "ERROR pinned tests fail with this mutant"
        env2 = dict(os.environ, FCGI_VERIF_REPO=wt, FCGI_VERIF_EVIDENCE=os.path.join(w, "ev"))
        r = sh([os.path.join(V, "bin", "fcgi-verif"), "check", m["prop"], "--tier", "quick"], cwd=V, env=env2)
        keys = [l.split("key:", 1)[1].strip() for l in r.stdout.splitlines() if l.strip().startswith("key:")]
        if m["expect"] is None:
            return "ok (silent)" if r.returncode == 0 and not keys else "FAIL benign edit raised: %s" % keys[:3]
        hit = [k for k in keys if m["expect"] in k]
        if hit:
            return "ok (fires: %s)" % hit[0]
        return "FAIL expected %s, got %s" % (m["expect"], keys[:4] or "no violation")
    finally:
        sh(["git", "-C", "/repo", "worktree", "remove", "--force", wt])
        shutil.rmtree(w, ignore_errors=True)

if __name__ == "__main__":
    sel = [a for a in sys.argv[1:] if not a.startswith("--")]
    tests = "--tests" in sys.argv
    res = {}
    bad = 0
    for m in mutants.M:
        if sel and m["prop"] not in sel and m["id"] not in sel:
            continue
        out = run_one(m, tests)
        res[m["id"]] = out
        print("%-40s %s" % (m["id"], out), flush=True)
        if not out.startswith("ok"):
            bad += 1
    sys.exit(1 if bad else 0)
