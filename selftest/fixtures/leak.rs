// Positive fixture for zero-count rules: each construct below must be reported by its matcher.
pub fn leak_box(x: Box<u8>) {
    std::mem::forget(x);
}
pub fn leak_md(x: Vec<u8>) -> std::mem::ManuallyDrop<Vec<u8>> {
    std::mem::ManuallyDrop::new(x)
}
