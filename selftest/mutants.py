"""Self-validation corpus: small edits of /repo that still compile (and pass the pinned suite) and either
break a property ('fires': the named rule must report) or are benign ('silent': the check must stay quiet).
Each entry: id, property, file, old text, new text, expect (substring of a violation key, or None for silent)."""

M = []


def mut(id, prop, file, old, new, expect, note="", extra=None, base=None):
    M.append({"id": id, "prop": prop, "file": file, "old": old, "new": new, "expect": expect, "note": note, "extra": extra or [], "base": base})


A = "src/async_io/mod.rs"

# ---- C08 -------------------------------------------------------------------------------------------------
mut("c08-revert-parse-first", "C08", A,
    """        let mut read = 0;
        loop {
            let status = parser.parse(read);""",
    """        let mut read;
        loop {
            read = input.read(parser.input_buffer()).await?;
            if read == 0 {
                return Err(io::ErrorKind::ConnectionReset.into());
            }
            let status = parser.parse(read);""",
    "R8.1/run/async_io::Token::parse_request", "reads before parsing handed-over bytes (site 1 of the fixed defect)")
mut("c08-revert-poll-input-flush", "C08", A,
    """            ready!(Pin::new(&mut *this).poll_output(cx))?;
            this.parser.compress();""",
    """            this.parser.compress();""",
    "async_io::Request::poll_input/wait-input[Fstr]", "site 2 of the fixed defect")
mut("c08-revert-record-boundary-flush", "C08", A,
    """            std::future::poll_fn(|cx| Pin::new(&mut *self).poll_output(cx)).await?;
""", "", "async_io::Request::record_boundary/wait-input[Fstr]", "site 3 of the fixed defect")
mut("c08-flush-only-large", "C08", A,
    """            if !status.output.is_empty() {
                output.write_all(status.output).await?;""",
    """            if status.output.len() > 16 {
                output.write_all(status.output).await?;""",
    "R8.1/run/async_io::Token::parse_request", "small replies stay unflushed")
mut("c08-benign-len-eq-0", "C08", A,
    """            if !status.output.is_empty() {
                output.write_all(status.output).await?;""",
    """            if status.output.len() != 0 {
                output.write_all(status.output).await?;""",
    None, "is_empty() spelled as len() != 0")
mut("c08-benign-while-not-empty", "C08", A,
    """        while let out @ [_, ..] = this.parser.output_buffer() {""",
    """        while !this.parser.output_buffer().is_empty() {
            let out = this.parser.output_buffer();""",
    None, "slice pattern spelled as is_empty loop")

# ---- C12 -------------------------------------------------------------------------------------------------
mut("c12-drop-eof-check-preamble", "C12", A,
    """            read = input.read(parser.input_buffer()).await?;
            if read == 0 {
                // Client-initiated connection shutdown
                return Err(io::ErrorKind::ConnectionReset.into());
            }""",
    """            read = input.read(parser.input_buffer()).await?;""",
    "R12.1/run/async_io::Token::parse_request", "EOF in the preamble spins")
mut("c12-drop-eof-check-poll-input", "C12", A,
    """            if read == 0 {
                // Connection was closed without end-of-stream record
                return Poll::Ready(Err(io::ErrorKind::UnexpectedEof.into()));
            }""", "", "async_io::Request::poll_input", "EOF mid-stream spins")
mut("c12-wrong-kind-poll-input", "C12", A,
    """                return Poll::Ready(Err(io::ErrorKind::UnexpectedEof.into()));""",
    """                return Poll::Ready(Err(io::ErrorKind::ConnectionReset.into()));""",
    "async_io::Request::poll_input/read-zero-edge", "handler sees ConnectionReset instead of UnexpectedEof")
mut("c12-eof-as-short-read", "C12", A,
    """                return Poll::Ready(Err(io::ErrorKind::UnexpectedEof.into()));""",
    """                return Poll::Ready(Ok(0));""",
    "async_io::Request::poll_input/read-zero-edge", "EOF reported as successful empty read")
mut("c12-ignore-write-error", "C12", A,
    """                output.write_all(status.output).await?;
                crate::macros::trace!("management records flushed");
            }
            if status.done {""",
    """                let _ = output.write_all(status.output).await;
            }
            if status.done {""",
    "R12.2", "write error dropped")
mut("c12-drop-writezero-poll-output", "C12", A,
    """            let written = ready!(Pin::new(&mut *w).poll_write(cx, out))?;
            if written == 0 {
                return Poll::Ready(Err(io::ErrorKind::WriteZero.into()));
            }""",
    """            let written = ready!(Pin::new(&mut *w).poll_write(cx, out))?;""",
    "R12.4", "zero-length write spins")
mut("c12-continue-after-handler-error", "C12", A,
    """                        tracing::error!(error, "IO failed mid-request");
                        return None;""",
    """                        tracing::error!(error, "IO failed mid-request");
                        ExitStatus::Complete(1)""",
    "R12.3", "I/O continues after the handler reported an I/O error")
mut("c12-benign-explicit-match", "C12", A,
    """            read = input.read(parser.input_buffer()).await?;
            if read == 0 {""",
    """            read = match input.read(parser.input_buffer()).await {
                Ok(n) => n,
                Err(e) => return Err(e),
            };
            if read == 0 {""",
    None, "`?` written as explicit match")

# ---- C07 -------------------------------------------------------------------------------------------------
mut("c07-epilogue-before-replies", "C07", A,
    """        if let out @ [_, ..] = self.parser.output_buffer() {
            // Parser::output_buffer is usually empty, so
            // we don't use complex, (partial) vectored writes.
            output.write_all(out).await?;
            self.parser.consume_output(out.len());
        }
        output.write_all(&endreq).await?;""",
    """        output.write_all(&endreq).await?;
        if let out @ [_, ..] = self.parser.output_buffer() {
            output.write_all(out).await?;
            self.parser.consume_output(out.len());
        }""",
    "R7.3/close/", "management replies written after EndRequest")
mut("c07-always-success-status", "C07", A,
    """        let endreq = fcgi::body::make_request_epilogue(request_id, status, streams);""",
    """        let _ = status;
        let endreq = fcgi::body::make_request_epilogue(request_id, ExitStatus::SUCCESS, streams);""",
    "R7.", "exit status ignored")
mut("c07-inverted-keepconn", "C07", A,
    """        if self.parser.request.flags.contains(fcgi::RequestFlags::KeepConn) {""",
    """        if !self.parser.request.flags.contains(fcgi::RequestFlags::KeepConn) {""",
    "R7.4", "reuse decision inverted")
mut("c07-skip-close-on-abort", "C07", A,
    """                        tracing::debug!("request aborted by remote");
                        ExitStatus::ABORT""",
    """                        tracing::debug!("request aborted by remote");
                        return None;""",
    "R7.2", "no EndRequest after abort")
mut("c07-handler-twice", "C07", A,
    """                let status = match handler(&mut req).await {""",
    """                let _ = handler(&mut req).await;
                let status = match handler(&mut req).await {""",
    "R7.1", "handler invoked twice")
mut("c07-epilogue-id-zero", "C07", A,
    """        let endreq = fcgi::body::make_request_epilogue(request_id, status, streams);""",
    """        let endreq = fcgi::body::make_request_epilogue(0, status, streams);""",
    "R7.3/close/epilogue-id", "EndRequest for id 0")
mut("c07-drop-record-boundary", "C07", A,
    """        self.record_boundary().await?;

        // Send required""",
    """        // Send required""",
    "R7.3/close/epilogue-preconditions", "connection reused mid-record")
mut("c07-streams-unconditional", "C07", A,
    """        let streams = if self.writeable { self.role().output_streams() } else { &[] };""",
    """        let streams = self.role().output_streams();""",
    "R7.3/close/", "stream end records even when not writeable")
mut("c07-benign-extract-flush-helper", "C07", A,
    """        if let out @ [_, ..] = self.parser.output_buffer() {
            // Parser::output_buffer is usually empty, so
            // we don't use complex, (partial) vectored writes.
            output.write_all(out).await?;
            self.parser.consume_output(out.len());
        }
        output.write_all(&endreq).await?;""",
    """        Self::flush_replies(&mut self.parser, &mut output).await?;
        output.write_all(&endreq).await?;""",
    None, "flush extracted into a helper",
    extra=[("""    /// Writes all of `Parser::output_buffer` into `self.output`.
    fn poll_output(""", """    async fn flush_replies(parser: &mut stream::Parser<'a>, output: &mut W) -> io::Result<()> {
        use futures_util::AsyncWriteExt;
        if let out @ [_, ..] = parser.output_buffer() {
            output.write_all(out).await?;
            parser.consume_output(out.len());
        }
        Ok(())
    }

    /// Writes all of `Parser::output_buffer` into `self.output`.
    fn poll_output(""")])

# ---- C13 -------------------------------------------------------------------------------------------------
mut("c13-semaphore-plus-one", "C13", A,
    """        let sema = async_lock::Semaphore::new(self.max_conns.get());""",
    """        let sema = async_lock::Semaphore::new(self.max_conns.get() + 1);""",
    "R13.2/semaphore-size", "one permit too many")
mut("c13-clone-new-semaphore", "C13", A,
    """        Self { config: self.config.clone(), sema: self.sema.clone(), stop, wg: WaitGroup::new() }""",
    """        let sema = Arc::new(async_lock::Semaphore::new(self.config.max_conns.get()));
        Self { config: self.config.clone(), sema, stop, wg: WaitGroup::new() }""",
    "R13.2", "each clone gets its own limit")
mut("c13-token-without-permit", "C13", A,
    """        let sg = self.sema.acquire_arc().await;""",
    """        let sg = match self.sema.try_acquire_arc() {
            Some(g) => g,
            None => {
                self.sema.add_permits(1);
                self.sema.acquire_arc().await
            },
        };""",
    "R13.", "mints a permit when none is free")
mut("c13-forget-permit", "C13", A,
    """        Poll::Ready(Ok(buf.len()))
    }

    fn poll_flush""",
    """        if buf.len() == usize::MAX {
            std::mem::forget(this.writer.clone());
        }
        Poll::Ready(Ok(buf.len()))
    }

    fn poll_flush""",
    "R13.3/leak-primitive", "a leak primitive appears in the crate")
mut("c13-extra-await-in-get-token", "C13", A,
    """        let tt = self.wg.add_task();""",
    """        let tt = self.wg.add_task();
        std::future::ready(()).await;""",
    "R13.1/get-token-suspends-once", "second suspension point between acquiring the permit and handing out the token")
mut("c13-benign-reorder-token-fields", "C13", A,
    """        Token { config: self.config.clone(), stop_fut: self.stop.listen(), _sg: sg, _tt: tt }""",
    """        Token { _tt: tt, _sg: sg, stop_fut: self.stop.listen(), config: self.config.clone() }""",
    None, "field order in the constructor expression")

# ---- C14 -------------------------------------------------------------------------------------------------
U = "src/async_io/util.rs"
mut("c14-empty-drop", "C14", U,
    """    fn drop(&mut self) {
        self.waker.wake();
    }""",
    """    fn drop(&mut self) {
        let _ = &self.waker;
    }""",
    "R14.1/drop-wakes", "last token drop wakes nobody")
mut("c14-pending-without-register", "C14", U,
    """            Some(wg) => {
                wg.waker.register(cx.waker());
                Poll::Pending
            },""",
    """            Some(wg) => {
                if Arc::strong_count(&wg) > 2 {
                    wg.waker.register(cx.waker());
                }
                Poll::Pending
            },""",
    "R14.2", "register skipped on some path")
mut("c14-drop-before-register", "C14", U,
    """            Some(wg) => {
                wg.waker.register(cx.waker());
                Poll::Pending
            },""",
    """            Some(wg) => {
                let weak = Arc::downgrade(&wg);
                drop(wg);
                if let Some(wg) = weak.upgrade() {
                    wg.waker.register(cx.waker());
                }
                Poll::Pending
            },""",
    "R14.2", "window between liveness check and registration")
mut("c14-notify-one", "C14", A,
    """        self.stop.notify(usize::MAX);""",
    """        self.stop.notify(1);""",
    "R14.3/notify-before-wait", "only one idle connection woken")
mut("c14-notify-after-wait", "C14", A,
    """        self.stop.notify(usize::MAX);
        std::future::IntoFuture::into_future(self.wg)""",
    """        let fut = std::future::IntoFuture::into_future(self.wg);
        self.stop.notify(usize::MAX);
        fut""",
    None, "order of two non-blocking calls (both before the future is polled): benign")
mut("c14-select-swapped", "C14", A,
    """                match select(&mut self.stop_fut, req_fut).await {
                    Either::Left(((), _)) => {
                        tracing::debug!("connection shutdown");
                        return;
                    },
                    Either::Right((Ok(p), _)) => p,
                    Either::Right((Err(e), _)) if e.kind() == io::ErrorKind::ConnectionReset => {
                        tracing::debug!("connection closed by remote");
                        return;
                    },
                    Either::Right((Err(e), _)) => {""",
    """                match select(req_fut, &mut self.stop_fut).await {
                    Either::Right(((), _)) => {
                        tracing::debug!("connection shutdown");
                        return;
                    },
                    Either::Left((Ok(p), _)) => p,
                    Either::Left((Err(e), _)) if e.kind() == io::ErrorKind::ConnectionReset => {
                        tracing::debug!("connection closed by remote");
                        return;
                    },
                    Either::Left((Err(e), _)) => {""",
    "R14.4", "preamble polled before the stop listener: a handler can start in a step that begins after shutdown")
mut("c14-benign-pinned-stop", "C14", A,
    """                match select(&mut self.stop_fut, req_fut).await {""",
    """                match select(std::pin::Pin::new(&mut self.stop_fut), req_fut).await {""",
    None, "the stop listener handed to select through Pin::new: same polling order")
mut("c14-buffered-request-skips-stop", "C14", A,
    """            let sparser = {
                let req_fut = Self::parse_request(rparser, &mut input, &mut output);""",
    """            let sparser = if let Some(p) = Self::try_buffered(&mut rparser) { p } else {
                let req_fut = Self::parse_request(rparser, &mut input, &mut output);""",
    "R14.5", "a request already buffered is handed to the handler without looking at the stop listener",
    extra=[("""    async fn parse_request<'a, R: AsyncRead + Unpin, W: AsyncWrite + Unpin>(""",
            """    fn try_buffered<'a>(parser: &mut request::Parser<'a>) -> Option<stream::Parser<'a>> {
        let mut probe = parser.clone();
        let status = probe.parse(0);
        if status.done && status.output.is_empty() {
            probe.into_stream_parser().ok()
        } else {
            None
        }
    }

    async fn parse_request<'a, R: AsyncRead + Unpin, W: AsyncWrite + Unpin>(""")])
mut("c14-shutdown-by-ref", "C14", A,
    """    pub fn shutdown(self) -> util::WaitGroupFuture {
        self.stop.notify(usize::MAX);
        std::future::IntoFuture::into_future(self.wg)""",
    """    pub fn shutdown(&self) -> util::WaitGroupFuture {
        self.stop.notify(usize::MAX);
        std::future::IntoFuture::into_future(util::WaitGroup::clone_group(&self.wg))""",
    "R14.3", "runner survives shutdown", extra=[(U, """    /// Returns the number of active tasks.""", """    pub(crate) fn clone_group(this: &Self) -> Self {
        Self(this.0.clone())
    }

    /// Returns the number of active tasks.""")])

# ---- C10 -------------------------------------------------------------------------------------------------
mut("c10-release-before-loop", "C10", A,
    """        let w = ready!(Pin::new(lock).poll(cx));
        let head = this.head.to_bytes();

        while Self::is_writing(this.head) {""",
    """        let w = ready!(Pin::new(lock).poll(cx));
        let head = this.head.to_bytes();
        if this.head_idx == 8 && this.head.content_length == 0 {
            this.lock = None;
            return Poll::Ready(Ok(buf.len()));
        }

        while Self::is_writing(this.head) {""",
    "R10.2", "lock released with padding still to be written")
mut("c10-release-on-writezero", "C10", A,
    """            let mut written = ready!(Pin::new(&mut *w).poll_write_vectored(cx, &iov))?;
            if written == 0 {
                return Poll::Ready(Err(io::ErrorKind::WriteZero.into()));
            }""",
    """            let mut written = ready!(Pin::new(&mut *w).poll_write_vectored(cx, &iov))?;
            if written == 0 {
                this.lock = None;
                return Poll::Ready(Err(io::ErrorKind::WriteZero.into()));
            }""",
    "R10.2", "lock released mid-record on the WriteZero path")
mut("c10-orig-len-not-set", "C10", A,
    """            this.head_idx = 0;
            this.orig_len = this.head.content_length;""",
    """            this.head_idx = 0;""",
    "R10.3/poll_write/orig_len-init", "payload slice keeps the previous record's length")
mut("c10-swap-payload-padding", "C10", A,
    """                IoSlice::new(&buf[payload_idx..]),
                IoSlice::new(this.head.padding_bytes()),""",
    """                IoSlice::new(this.head.padding_bytes()),
                IoSlice::new(&buf[payload_idx..]),""",
    "R10.4/poll_write/iov-order", "padding before payload")
mut("c10-return-untruncated", "C10", A,
    """        let buf = buf.get(..this.orig_len.into())
            .expect("buf shrunk between calls to poll_write");
""",
    """        let full = buf;
        let buf = buf.get(..this.orig_len.into())
            .expect("buf shrunk between calls to poll_write");
""",
    "R10.4/poll_write/return-count", "reports more bytes than the record carried",
    extra=[("""        crate::macros::trace!(stream = ?this.stream(), bytes = buf.len(), "record written");
        Poll::Ready(Ok(buf.len()))""", """        Poll::Ready(Ok(full.len()))""")])
mut("c10-try-lock-instead-of-guard", "C10", A,
    """        let lock = this.lock.get_or_insert_with(|| RepeatableLockFuture::new(this.output.clone()));
        let w = ready!(Pin::new(lock).poll(cx));
        while let out @ [_, ..] = this.parser.output_buffer() {""",
    """        let mut guard = match this.output.try_lock() {
            Some(g) => g,
            None => { cx.waker().wake_by_ref(); return Poll::Pending; },
        };
        let w = &mut *guard;
        while let out @ [_, ..] = this.parser.output_buffer() {""",
    "R10.1", "guard dies at every return: a Pending mid-record releases the mutex")
mut("c10-restart-record-on-repoll", "C10", A,
    """        assert!(Self::is_writing(this.head), "poll_write called while poll_flush is pending");""",
    """        assert!(Self::is_writing(this.head), "poll_write called while poll_flush is pending");
        if this.head_idx == 0 {
            this.head.set_lengths(buf.len().try_into().unwrap_or(u16::MAX));
        }""",
    "R10.3/poll_write/record-start-site", "lengths recomputed on a re-poll")
mut("c10-benign-rename-helper", "C10", A,
    """    fn is_writing(head: fcgi::RecordHeader) -> bool {""",
    """    fn record_in_flight(head: fcgi::RecordHeader) -> bool {""",
    None, "private helper renamed",
    extra=[("""            assert!(!Self::is_writing(this.head), "lock was dropped mid-write");""", """            assert!(!Self::record_in_flight(this.head), "lock was dropped mid-write");"""),
           ("""        assert!(Self::is_writing(this.head), "poll_write called while poll_flush is pending");""", """        assert!(Self::record_in_flight(this.head), "poll_write called while poll_flush is pending");"""),
           ("""        while Self::is_writing(this.head) {""", """        while Self::record_in_flight(this.head) {"""),
           ("""        assert!(!Self::is_writing(this.head), "poll_flush called while poll_write is pending");""", """        assert!(!Self::record_in_flight(this.head), "poll_flush called while poll_write is pending");""")])

# ---- C17 -------------------------------------------------------------------------------------------------
PF = "src/protocol/fields.rs"
PB = "src/protocol/body.rs"
PM = "src/protocol/mod.rs"
PV = "src/protocol/vars.rs"
mut("c17-swap-status-discriminants", "C17", PF,
    """    CantMpxConn = 1,
    /// The FastCGI application is out of resources to process the request.
    Overloaded = 2,""",
    """    CantMpxConn = 2,
    /// The FastCGI application is out of resources to process the request.
    Overloaded = 1,""",
    "R17.1/enum[ProtocolStatus]", "two protocol status codes swapped")
mut("c17-overloaded-maps-unknownrole", "C17", PB,
    """            ExitStatus::Overloaded => (ProtocolStatus::Overloaded, 0),""",
    """            ExitStatus::Overloaded => (ProtocolStatus::UnknownRole, 0),""",
    "R17.2/exit-status-table", "wrong protocol status for Overloaded")
mut("c17-to-record-padding-8", "C17", PB,
    """            version: Version::V1, rtype: RecordType::EndRequest,
            request_id, content_length: Self::LEN as u16, padding_length: 0,""",
    """            version: Version::V1, rtype: RecordType::EndRequest,
            request_id, content_length: Self::LEN as u16, padding_length: 8,""",
    "R17.3/to_record[EndRequest]", "EndRequest announces padding that is never sent")
mut("c17-endrequest-first-in-epilogue", "C17", PB,
    """    let mut buf = SmallVec::new();
    for &s in streams {
        let rec = RecordHeader::new(s, request_id);
        buf.extend_from_slice(&rec.to_bytes());
    }
    buf.extend_from_slice(&EndRequest::from(status).to_record(request_id));
    buf""",
    """    let mut buf = SmallVec::new();
    buf.extend_from_slice(&EndRequest::from(status).to_record(request_id));
    for &s in streams {
        let rec = RecordHeader::new(s, request_id);
        buf.extend_from_slice(&rec.to_bytes());
    }
    buf""",
    "R17.4/epilogue-language", "EndRequest before the stream end records")
mut("c17-response-len-96", "C17", PV,
    """    pub const RESPONSE_LEN: usize = 104;""",
    """    pub const RESPONSE_LEN: usize = 96;""",
    "R17.", "advertised maximum too small")
mut("c17-padding-rule-off-by-one", "C17", PM,
    """        if padding > 0 {
            padding = 8 - padding;
        }""",
    """        if padding > 1 {
            padding = 8 - padding;
        }""",
    "R17.6/set_lengths", "content 1 mod 8 gets padding 1")
mut("c17-header-little-endian-id", "C17", PM,
    """            request_id: u16::from_be_bytes([data[2], data[3]]),""",
    """            request_id: u16::from_be_bytes([data[3], data[2]]),""",
    "R17.7/layout[RecordHeader]", "request id bytes swapped in the decoder")
mut("c17-type-before-version", "C17", PM,
    """        Ok(Self {
            version: Version::try_from(data[0])?,
            rtype: RecordType::try_from(data[1])?,""",
    """        let rtype = RecordType::try_from(data[1])?;
        Ok(Self {
            version: Version::try_from(data[0])?,
            rtype,""",
    "R17.8/version-checked-first", "unknown type reported for a record of unknown version")
mut("c17-mpxs-conns-one", "C17", PV,
    """                Self::FCGI_MPXS_CONNS => CompactString::const_new("0"),""",
    """                Self::FCGI_MPXS_CONNS => CompactString::const_new("1"),""",
    "R17.5/write_response/value", "advertises multiplexing")

# ---- C15 -------------------------------------------------------------------------------------------------
VI = "src/protocol/varint.rs"
mut("c15-max-2-31", "C15", VI,
    """    pub const MAX: Self = VarInt((1 << 31) - 1);""",
    """    pub const MAX: Self = VarInt(1 << 31);""",
    "O1/constants", "2^31 accepted: its encoding collides with 0")
mut("c15-long-bit-value", "C15", VI,
    """    const LONG_BIT: u8 = 1 << 7;""",
    """    const LONG_BIT: u8 = 1 << 6;""",
    "O4/", "the form bit is 0x40: values 64..127 take four bytes and long encodings are misread")
mut("c15-range-check-ge", "C15", VI,
    """        if v > Self::MAX.into() {""",
    """        if v >= Self::MAX.into() {""",
    "O2/try_from_u32", "MAX itself rejected")
mut("c15-long-bit-literal-read", "C15", VI,
    """        if buf[0] & Self::LONG_BIT == 0 {
            return Ok(buf[0].into());
        }""",
    """        if buf[0] & 0x40 == 0 {
            return Ok(buf[0].into());
        }""",
    "O4/read/forms", "decoder tests a different bit")
mut("c15-little-endian-read", "C15", VI,
    """        Ok(Self(u32::from_be_bytes(buf)))""",
    """        Ok(Self(u32::from_le_bytes(buf)))""",
    "O4/read/forms", "byte order mismatch")
mut("c15-plain-read-for-tail", "C15", VI,
    """        r.read_exact(&mut buf[1..])?;""",
    """        let _n = r.read(&mut buf[1..])?;""",
    "O5/read/read_exact-only", "truncated long form accepted")
mut("c15-write-count-constant", "C15", VI,
    """            let mut e: [u8; 4] = self.0.to_be_bytes();
            e[0] |= Self::LONG_BIT;
            w.write_all(&e).and(Ok(e.len()))""",
    """            let mut e: [u8; 4] = self.0.to_be_bytes();
            e[0] |= Self::LONG_BIT;
            w.write_all(&e).and(Ok(1))""",
    "O6/write/count", "reports 1 byte for the long form")
mut("c15-unchecked-constructor", "C15", VI,
    """impl From<u16> for VarInt {""",
    """impl VarInt {
    /// Wraps a raw value.
    #[must_use]
    pub fn from_raw(v: u32) -> Self {
        Self(v)
    }
}

impl From<u16> for VarInt {""",
    "O3/construction-site", "a constructor that bypasses the range check")

# ---- C20 -------------------------------------------------------------------------------------------------
RS = "src/cgi/response.rs"
mut("c20-count-off-by-one", "C20", RS,
    """        written += name.len() + val.len() + 3;""",
    """        written += name.len() + val.len() + 2;""",
    "R20.2/write_headers/count", "count misses one byte per header")
mut("c20-omit-final-blank-line", "C20", RS,
    """    w.write_all(b"\\n\\n")?;
    Ok(written + 2)""",
    """    w.write_all(b"\\n")?;
    Ok(written + 1)""",
    "R20.1/write_headers/grammar", "header block not terminated")
mut("c20-separator-before-name", "C20", RS,
    """        w.write_all(name)?;
        w.write_all(b": ")?;""",
    """        w.write_all(b": ")?;
        w.write_all(name)?;""",
    "R20.1/write_headers/grammar", "': ' before the name")
mut("c20-plain-write", "C20", RS,
    """        w.write_all(val)?;""",
    """        w.write(val)?;""",
    "R20.3/write_headers/write_all-only", "short write of a value reported as success")
mut("c20-ignore-result", "C20", RS,
    """    w.write_all(val)?;
    w.write_all(b"\\n\\n")?;
    Ok(LOCATION.len() + 2 + val.len())""",
    """    w.write_all(val)?;
    let _ = w.write_all(b"\\n\\n");
    Ok(LOCATION.len() + 2 + val.len())""",
    "R20.3/simple_redirect", "failure of the last write reported as success")
mut("c20-benign-sum-at-end", "C20", RS,
    """    w.write_all(b"\\n\\n")?;
    Ok(written + 2)""",
    """    w.write_all(b"\\n\\n")?;
    let total = 2 + written;
    Ok(total)""",
    None, "count computed in a different order")

# ---- C04 -------------------------------------------------------------------------------------------------
ST = "src/parser/stream.rs"
RQ = "src/parser/request.rs"
mut("c04-stream-cantmpx-overloaded", "C04", ST,
    """                    protocol_status: fcgi::ProtocolStatus::CantMpxConn,""",
    """                    protocol_status: fcgi::ProtocolStatus::Overloaded,""",
    "R4.1/stream/begin-multiplex", "wrong status in the stream parser only (sibling disagreement)")
mut("c04-drop-id-guard", "C04", ST,
    """            fcgi::RecordType::BeginRequest if head.request_id != req_id => {""",
    """            fcgi::RecordType::BeginRequest => {""",
    "R4.1/stream/", "duplicate BeginRequest for the own id answered with CantMpxConn")
mut("c04-unknown-reply-to-id-0", "C04", ST,
    """                let unk = fcgi::body::UnknownType { rtype }.to_record(request_id);""",
    """                let unk = fcgi::body::UnknownType { rtype }.to_record(fcgi::FCGI_NULL_REQUEST_ID);""",
    "R4.1/stream/unknown-type", "unknown-type echo addressed to id 0 instead of the sender's id")
mut("c04-missing-output-count", "C04", ST,
    """                self.output.extend(unk);
                res.output += unk.len();""",
    """                self.output.extend(unk);""",
    "R4.1/stream/unknown-type", "Status.output does not count the reply")
mut("c04-reply-on-partial-body", "C04", ST,
    """                if raw_len < self.payload_rem.into() {
                    payload_len - remaining
                } else {""",
    """                if raw_len + 8 < usize::from(self.payload_rem) {
                    payload_len - remaining
                } else {""",
    "R4.2", "GetValuesResult emitted before the body is complete")
mut("c04-abort-reply-wrong-id", "C04", RQ,
    """                out.extend(fcgi::body::EndRequest {
                    protocol_status: fcgi::ProtocolStatus::RequestComplete,
                    app_status: 0,
                }.to_record(req_id));""",
    """                out.extend(fcgi::body::EndRequest {
                    protocol_status: fcgi::ProtocolStatus::RequestComplete,
                    app_status: 0,
                }.to_record(0));""",
    "R4.1/params/abort", "abort acknowledged for id 0")
mut("c04-params-double-unknown-reply", "C04", RQ,
    """                $out.extend(fcgi::body::UnknownType { rtype }.to_record(request_id));
                // Skip record body""",
    """                $out.extend(fcgi::body::UnknownType { rtype }.to_record(request_id));
                if payload == 0 {
                    $out.extend(fcgi::body::UnknownType { rtype }.to_record(request_id));
                }
                // Skip record body""",
    "R4.1/", "two replies for an empty unknown record")
mut("c04-output-truncate", "C04", ST,
    """        if amt >= output_len {
            self.output.clear();
            self.output_start = 0;""",
    """        if amt >= output_len {
            self.output.truncate(0);
            self.output_start = 0;""",
    None, "clear spelled as truncate(0) in consume_output")
mut("c04-benign-tracing-in-arms", "C04", ST,
    """                // Skip unexpected record types
                State::Skip
            },
        };""",
    """                // Skip unexpected record types
                tracing::debug!(rtype = ?head.rtype, "record skipped");
                State::Skip
            },
        };""",
    None, "extra logging in a dispatch arm")

# ---- C11 -------------------------------------------------------------------------------------------------
PMOD = "src/parser/mod.rs"
LIB = "src/lib.rs"
mut("c11-abort-keeps-params-state", "C11", RQ,
    """                let initial = HeaderState.into_skip(head.content_length, head.padding_length);
                Continue((data, initial))""",
    """                let initial = self.into_skip(head.content_length, head.padding_length);
                Continue((data, initial))""",
    "R11.1/params/abort", "aborted request keeps being parsed")
mut("c11-abort-reply-overloaded", "C11", RQ,
    """                out.extend(fcgi::body::EndRequest {
                    protocol_status: fcgi::ProtocolStatus::RequestComplete,
                    app_status: 0,
                }.to_record(req_id));""",
    """                out.extend(fcgi::body::EndRequest {
                    protocol_status: fcgi::ProtocolStatus::Overloaded,
                    app_status: 0,
                }.to_record(req_id));""",
    "R11.1/params/abort", "wrong protocol status for an aborted request")
mut("c11-stream-abort-consumes-header", "C11", ST,
    """                // Report AbortRequest record to caller, but keep header
                // in self.buffer for subsequent calls.
                return Err(Error::AbortRequest);""",
    """                self.raw_start = past_head;
                return Err(Error::AbortRequest);""",
    "R11.2/stream/abort", "abort reported once only; later reads continue past it")
mut("c11-abort-maps-to-other", "C11", PMOD,
    """            Error::AbortRequest => io::ErrorKind::ConnectionAborted.into(),""",
    """            Error::AbortRequest => io::ErrorKind::Interrupted.into(),""",
    "R11.3/io-error-table", "handler cannot recognise an abort")
mut("c11-abort-status-one", "C11", LIB,
    """    pub const ABORT: Self = Self::Complete(u32::from_be_bytes(*b"ABRT"));""",
    """    pub const ABORT: Self = Self::Complete(1);""",
    "R11.4/abort-constant", "abort status not distinguished")
mut("c11-close-does-not-tolerate-abort", "C11", A,
    """            Err(e) if e.kind() == io::ErrorKind::ConnectionAborted => { /* Ignore */ },
            Err(e) => return Err(e),
        }
        self.parser.set_stream(None)""",
    """            Err(e) => return Err(e),
        }
        self.parser.set_stream(None)""",
    "R11.5/tolerated-errors", "no EndRequest after an abort")
mut("c11-header-answers-stale-abort", "C11", RQ,
    """        match head.rtype {
            fcgi::RecordType::BeginRequest => { /* Handled below */ },""",
    """        match head.rtype {
            fcgi::RecordType::BeginRequest => { /* Handled below */ },
            fcgi::RecordType::AbortRequest => {
                out.extend(fcgi::body::EndRequest {
                    protocol_status: fcgi::ProtocolStatus::RequestComplete,
                    app_status: 0,
                }.to_record(head.request_id));
                let skip = self.into_skip(head.content_length, head.padding_length);
                return Continue((&mut data[fcgi::RecordHeader::LEN..], skip));
            },""",
    "R11.6/header/abort-row", "second EndRequest for an already finished request")

# ---- C18 -------------------------------------------------------------------------------------------------
mut("c18-assign-before-order-test", "C18", ST,
    """        if let Some(s) = stream {
            if cmp_input_streams(self.request.role, s, self.stream) == Ordering::Less {
                return Err(SequenceError { role: self.request.role, new: s, old: self.stream });
            }
        }
        if stream != self.stream {""",
    """        let old = std::mem::replace(&mut self.stream, stream);
        if let Some(s) = stream {
            if cmp_input_streams(self.request.role, s, old) == Ordering::Less {
                return Err(SequenceError { role: self.request.role, new: s, old });
            }
        }
        if stream != old {""",
    "R18.", "a rejected selection has already changed the active stream")
mut("c18-skip-discard", "C18", ST,
    """            self.discard_stream();
            self.stream = stream;""",
    """            self.stream = stream;""",
    "R18.2/set_stream/change", "buffered data of the old stream is delivered as the new stream's")
mut("c18-less-means-stream", "C18", ST,
    """                    // Skip earlier streams
                    Ordering::Less => State::Skip,""",
    """                    // Skip earlier streams
                    Ordering::Less => State::Stream,""",
    "R18.3/stream/earlier-stream", "data of an earlier stream is delivered")
mut("c18-filter-has-no-second-stream", "C18", PF,
    """            (Self::Filter, Some(Stdin)) => Some(Data),""",
    """            (Self::Filter, Some(Stdin)) => None,""",
    "R18.1/next_input_stream", "Filter's Data stream can never become active")
mut("c18-async-ignores-verdict", "C18", A,
    """        self.parser.set_stream(Some(stream))
            .expect("streams should follow the order given by Role::input_streams");""",
    """        let _ = self.parser.set_stream(Some(stream));""",
    "R18.5", "out-of-order selection silently ignored")
mut("c18-same-stream-discards", "C18", ST,
    """        if stream != self.stream {
            if matches!(self.state, State::Stream) {""",
    """        if stream.is_some() {
            if matches!(self.state, State::Stream) {""",
    "R18.2", "re-selecting the current stream drops buffered data")

# ---- C05 -------------------------------------------------------------------------------------------------
mut("c05-handover-raw-start", "C05", ST,
    """        Ok(request::Parser::from_parser(self.config, self.buffer, self.free_start, self.output))""",
    """        Ok(request::Parser::from_parser(self.config, self.buffer, self.raw_start, self.output))""",
    "R5.3/into_request_parser", "look-ahead bytes dropped at the hand-over")
mut("c05-read-free-start-before-discard", "C05", ST,
    """        self.discard_stream();
        Ok(request::Parser::from_parser(self.config, self.buffer, self.free_start, self.output))""",
    """        let len = self.free_start;
        self.discard_stream();
        Ok(request::Parser::from_parser(self.config, self.buffer, len, self.output))""",
    "R5.3/into_request_parser", "stale length: consumed bytes replayed")
mut("c05-drop-boundary-guard", "C05", ST,
    """    pub fn into_input(mut self) -> Result<Vec<u8>, Error> {
        if !self.is_record_boundary() {
            return Err(Error::Interrupted);
        }""",
    """    pub fn into_input(mut self) -> Result<Vec<u8>, Error> {""",
    "R5.3/into_input", "conversion in the middle of a record")
mut("c05-truncate-whole-buffer", "C05", RQ,
    """        let mut input = Vec::from(self.input);
        input.truncate(self.input_len);
        Ok((request, input))""",
    """        let mut input = Vec::from(self.input);
        input.truncate(input.capacity());
        Ok((request, input))""",
    "R5.1/into_request", "leftover includes stale buffer contents")
mut("c05-move-input-wrong-source", "C05", RQ,
    """            self.input.copy_within(used_len..self.input_len, 0);""",
    """            self.input.copy_within(rem_len..self.input_len, 0);""",
    "R5.4/move_input", "wrong tail kept")
mut("c05-benign-local-free-start", "C05", ST,
    """        self.discard_stream();
        Ok(request::Parser::from_parser(self.config, self.buffer, self.free_start, self.output))""",
    """        self.discard_stream();
        let len = self.free_start;
        Ok(request::Parser::from_parser(self.config, self.buffer, len, self.output))""",
    None, "free_start bound to a local after the compaction")

# ---- C06 -------------------------------------------------------------------------------------------------
mut("c06-allocate-configured-size", "C06", RQ,
    """        let buffer_size = config.aligned_bufsize();
        let buffer = vec![0; buffer_size].into_boxed_slice();
        Self::from_parser(config, buffer, 0, Vec::with_capacity(256))""",
    """        let buffer_size = config.buffer_size;
        let buffer = vec![0; buffer_size].into_boxed_slice();
        Self::from_parser(config, buffer, 0, Vec::with_capacity(256))""",
    "R6.1", "buffer below the 24-byte minimum possible")
mut("c06-stuck-one-early", "C06", RQ,
    """        if !done && self.input_len == self.input.len() {""",
    """        if !done && self.input_len + 1 >= self.input.len() {""",
    "R6.2/parse/stuck-detection", "StuckOnInput although one byte of room is left")
mut("c06-stuck-not-reported", "C06", RQ,
    """        if !done && self.input_len == self.input.len() {
            self.state = State::Fatal(Error::StuckOnInput);
            done = true;
        }""",
    """        if !done && self.input_len == self.input.len() {
            tracing::warn!("input buffer is full");
        }""",
    "R6.2/parse/stuck-detection", "caller waits forever on an empty input buffer")
mut("c06-align-down", "C06", LIB,
    """            Some(r) => r & !7,""",
    """            Some(r) => (r - 7) & !7,""",
    "R6.3/aligned_bufsize", "effective buffer smaller than configured")

mut("c06-incomplete-includes-padding", "C06", RQ,
    """            if data.len() < self.payload_rem.into() {
                let consumed = self.inner.parse_stream(data, false);""",
    """            if data.len() < usize::from(self.payload_rem) + usize::from(self.padding_rem) {
                let avail = min(data.len(), usize::from(self.payload_rem));
                let consumed = self.inner.parse_stream(&mut data[..avail], false);""",
    "R6.4/params-drive/record-end-flag", "a pair fragment waits in the input buffer for the padding: StuckOnInput inside the documented bound (seed C06-b)")
mut("c06-complete-at-le", "C06", RQ,
    """            if data.len() < self.payload_rem.into() {
                let consumed = self.inner.parse_stream(data, false);""",
    """            if data.len() <= self.payload_rem.into() {
                let consumed = self.inner.parse_stream(data, false);""",
    "R6.4/params-drive/record-end-flag", "an exactly complete payload is never finished: the trailing fragment is never moved out")
mut("c06-rec-end-small-fragment-only", "C06", RQ,
    """        if rec_end && !data.is_empty() {
            // Reserve sufficient space""",
    """        if rec_end && !data.is_empty() && data.len() < 64 {
            // Reserve sufficient space""",
    "R6.5/parse_stream/record-end-buffering", "large fragments stay in the input buffer at a record end")
mut("c06-try-fill-keeps-on-rec-end", "C06", RQ,
    """            } else if $must_move {
                $vec.extend(&*$inp);
                return &mut [];
            } else {""",
    """            } else if $must_move && $inp.len() > 1 {
                $vec.extend(&*$inp);
                return &mut [];
            } else {""",
    "R6.5/parse_buffered/record-end-buffering", "a one-byte fragment of a length header is left in the input buffer at a record end")
mut("c06-benign-payload-len-local", "C06", RQ,
    """            if data.len() < self.payload_rem.into() {
                let consumed = self.inner.parse_stream(data, false);""",
    """            let want = usize::from(self.payload_rem);
            if data.len() < want {
                let consumed = self.inner.parse_stream(data, false);""",
    None, "payload_rem widened into a local first")

mut("c06-getvalues-waits-for-whole-body", "C06", RQ,
    """            if data.len() < self.payload_rem.into() {
                // Wait for future payload bytes
                let consumed = len - remaining;
                self.payload_rem -= consumed as u16;
                return Break((&mut data[consumed..], T::wrap_values(self)));
            }""",
    """            if data.len() < self.payload_rem.into() {
                // Wait for future payload bytes
                let _ = (len, remaining);
                return Break((data, T::wrap_values(self)));
            }""",
    "R6.6", "a GetValues body must fit into the input buffer as a whole although every pair is small (seed C06-c)")
mut("c05-drain-parses-at-boundary", "C05", A,
    """        debug_assert!(self.active_stream().is_none());
        if self.parser.is_record_boundary() {
            return Ok(());
        }
""",
    """        debug_assert!(self.active_stream().is_none());
""",
    "R5.5", "close() swallows a pipelined next request that is already buffered (seed C05-c)")
# ---- C03 -------------------------------------------------------------------------------------------------
mut("c03-stream-payload-unclamped", "C03", ST,
    """        let payload_len = min(usize::from(self.payload_rem), raw_len);""",
    """        let payload_len = usize::from(self.payload_rem);""",
    "R3.11/stream::parse_payload/slice", "a record body longer than the buffered input slices past free_start (and possibly past the buffer)")
mut("c03-stream-head-bounded-by-capacity", "C03", ST,
    """        if past_head > self.free_start {
            return Ok(Break(()));
        }""",
    """        if past_head > self.buffer.len() {
            return Ok(Break(()));
        }""",
    "R3.11/stream::parse_head/postcondition", "a header is read from bytes that were never received; raw_start overtakes free_start")
mut("c03-stream-padding-off-by-one", "C03", ST,
    """                if raw_len <= self.padding_rem.into() {
                    self.raw_start = self.free_start;""",
    """                if raw_len <= usize::from(self.padding_rem) + 1 {
                    self.raw_start = self.free_start;""",
    "R3.11/stream::parse/sub", "padding_rem -= raw_len underflows when one byte more than the padding is buffered")
mut("c03-getvalues-decoder-unclamped", "C03", RQ,
    """            let len = min(data.len(), self.payload_rem.into());
            let mut nvit = fcgi::nv::NVIter::new(&data[..len]);""",
    """            let len = data.len();
            let mut nvit = fcgi::nv::NVIter::new(&data[..len]);""",
    "R3.9", "the decoder reads past the record's payload (no arithmetic fault: R3.11 rightly stays silent, R3.9 fires)")
mut("c03-request-parse-no-precondition", "C03", RQ,
    """        assert!(new_input <= self.input.len() - self.input_len);
        self.input_len += new_input;""",
    """        self.input_len += new_input;""",
    "R3.11/request::parse/slice", "input[..input_len] can be out of bounds")
mut("c03-benign-stream-padding-lt", "C03", ST,
    """                if raw_len <= self.padding_rem.into() {
                    self.raw_start = self.free_start;""",
    """                if raw_len < self.padding_rem.into() {
                    self.raw_start = self.free_start;""",
    None, "the equal case takes the other branch with the same result (raw_start = free_start, padding_rem = 0)")
mut("c03-compress-stale-gap-in-guard", "C03", ST,
    """        // [parsed_start, gap_start) moved to [0, gap_start - parsed_start)
        self.gap_start -= self.parsed_start;
        self.parsed_start = 0;

        if self.gap_start < self.raw_start && self.raw_start < self.free_start {
            self.buffer.copy_within(self.raw_start..self.free_start, self.gap_start);
        }""",
    """        let old_gap = self.gap_start;
        self.gap_start -= self.parsed_start;
        self.parsed_start = 0;

        if old_gap < self.raw_start && self.raw_start < self.free_start {
            self.buffer.copy_within(self.raw_start..self.free_start, self.gap_start);
        }""",
    "R3.10/compress/postcondition", "with no gap between stream bytes and raw input the raw input is not moved although raw_start is (seed C03-b)")
mut("c03-compress-raw-first", "C03", ST,
    """        if 0 < self.parsed_start && self.parsed_start < self.gap_start {
            self.buffer.copy_within(self.parsed_start..self.gap_start, 0);
        }
        // [parsed_start, gap_start) moved to [0, gap_start - parsed_start)
        self.gap_start -= self.parsed_start;
        self.parsed_start = 0;

        if self.gap_start < self.raw_start && self.raw_start < self.free_start {
            self.buffer.copy_within(self.raw_start..self.free_start, self.gap_start);
        }""",
    """        let parsed_len = self.gap_start - self.parsed_start;
        if parsed_len < self.raw_start && self.raw_start < self.free_start {
            self.buffer.copy_within(self.raw_start..self.free_start, parsed_len);
        }
        if 0 < self.parsed_start && self.parsed_start < self.gap_start {
            self.buffer.copy_within(self.parsed_start..self.gap_start, 0);
        }
        self.gap_start = parsed_len;
        self.parsed_start = 0;
""",
    "R3.10/compress/clobber", "moving the raw input first overwrites stream bytes that have not been moved yet")
mut("c03-consume-stream-unclamped", "C03", ST,
    """        self.parsed_start += min(amt, parsed_len);""",
    """        let _ = parsed_len;
        self.parsed_start += amt;""",
    "R3.10/consume_stream/postcondition", "consuming more than is buffered pushes parsed_start past gap_start")
mut("c03-move-input-keeps-offset", "C03", RQ,
    """            self.input.copy_within(used_len..self.input_len, 0);""",
    """            self.input.copy_within(used_len..self.input_len, 1);""",
    "R3.10/move_input", "the remainder is not moved to the front")
mut("c03-benign-consume-stream-reset", "C03", ST,
    """        self.parsed_start += min(amt, parsed_len);""",
    """        if amt >= parsed_len {
            self.parsed_start = 0;
            self.gap_start = 0;
        } else {
            self.parsed_start += amt;
        }""",
    None, "an emptied stream buffer is reset to the front: same content, invariant kept")
mut("c03-benign-compress-with-local", "C03", ST,
    """        // [parsed_start, gap_start) moved to [0, gap_start - parsed_start)
        self.gap_start -= self.parsed_start;
        self.parsed_start = 0;

        if self.gap_start < self.raw_start && self.raw_start < self.free_start {
            self.buffer.copy_within(self.raw_start..self.free_start, self.gap_start);
        }""",
    """        let parsed_len = self.gap_start - self.parsed_start;
        self.gap_start = parsed_len;
        self.parsed_start = 0;

        if parsed_len < self.raw_start && self.raw_start < self.free_start {
            self.buffer.copy_within(self.raw_start..self.free_start, parsed_len);
        }""",
    None, "same geometry through a local")

mut("c03-fatal-falls-through", "C03", RQ,
    """                Done(_) | Fatal(_) => return (data, self),""",
    """                Done(_) => return (data, self),
                Fatal(_) => HeaderState.drive(data, out),""",
    "R3.1/state-drive/final-sticky", "a fatal error is forgotten by the next call")
mut("c03-clear-after-drive", "C03", RQ,
    """        self.input_len += new_input;
        self.output.clear();
""",
    """        self.input_len += new_input;
""",
    "R3.2/parse/clear-then-drive", "replies of the previous call are emitted again",
    extra=[("""        let rem_len = rem.len();
        self.move_input(rem_len);
""", """        let rem_len = rem.len();
        self.move_input(rem_len);
        if rem_len == 0 && self.input_len == 0 && new_input == 0 {
            self.output.clear();
        }
""")])
mut("c03-panic-default-header", "C03", RQ,
    """            &mut self.state, || State::Fatal(Error::Paniced),""",
    """            &mut self.state, || State::Header(HeaderState),""",
    "R3.3/parse/panic-fallback", "parser silently restarts after a panic")
mut("c03-stream-version-error-consumes", "C03", ST,
    """            Err(fcgi::Error::UnknownVersion(v)) => return Err(Error::UnknownVersion(v)),""",
    """            Err(fcgi::Error::UnknownVersion(v)) => {
                self.raw_start = past_head;
                return Err(Error::UnknownVersion(v));
            },""",
    "R3.4/stream/unknown-version", "the fatal error is reported once, later calls parse garbage")
mut("c03-params-unknown-version-skips", "C03", RQ,
    """            Err(fcgi::Error::UnknownVersion(v)) => fatal!($inp, Error::UnknownVersion(v)),""",
    """            Err(fcgi::Error::UnknownVersion(v)) => {
                ::tracing::warn!(version = v, "unknown version");
                let skip = $s.into_skip(0, 0);
                return Continue((&mut $inp[fcgi::RecordHeader::LEN..], skip));
            },""",
    "R3.5/", "records of unknown version are skipped as if 8 bytes long")
mut("c03-stream-parse-early-out", "C03", ST,
    """        assert!(new_input <= self.buffer.len() - self.free_start);
        self.free_start += new_input;
""",
    """        assert!(new_input <= self.buffer.len() - self.free_start);
        self.free_start += new_input;
        if new_input == 0 && dest.is_none() {
            return Ok(Status { stream: 0, output: 0, stream_end: self.stream.is_none() });
        }
""",
    "R3.8/stream-parse/always-processes", "buffered records stay unparsed")

# ---- C16 -------------------------------------------------------------------------------------------------
NV = "src/protocol/nv.rs"
mut("c16-advance-before-length-check", "C16", NV,
    """        if self.data.len() >= total_len {
            // Should never panic due to check above
            let nv = replace_with::replace_with_or_default_and_return(
                &mut self.data, |b| b.split_at(total_len),
            );
            Some(nv.advance_by(head_len).split_at(name_len))
        } else {
            None
        }""",
    """        if self.data.len() >= total_len {
            // Should never panic due to check above
            let nv = replace_with::replace_with_or_default_and_return(
                &mut self.data, |b| b.split_at(total_len),
            );
            Some(nv.advance_by(head_len).split_at(name_len))
        } else {
            self.data = T::default();
            None
        }""",
    "R16.1/next", "an incomplete pair empties the iterator: the suffix is lost")
mut("c16-drop-length-guard", "C16", NV,
    """        if self.data.len() >= total_len {""",
    """        if self.data.len() >= head_len {""",
    "R16.2/next", "split beyond the available bytes (panic on truncated input)")
mut("c16-plain-add", "C16", NV,
    """        let total_len = head_len.checked_add(name_len)?.checked_add(val_len)?;""",
    """        let val_len: usize = val_len;
        let total_len = head_len.checked_add(name_len)? + val_len;""",
    "R16.2/next", "overflow on hostile lengths")
mut("c16-count-without-value", "C16", NV,
    """    Ok(written + name.len() + value.len())""",
    """    Ok(written + name.len())""",
    "R16.4/write", "reported count misses the value")
mut("c16-value-before-name", "C16", NV,
    """    w.write_all(name)?;
    w.write_all(value)?;""",
    """    w.write_all(value)?;
    w.write_all(name)?;""",
    "R16.4/write", "value written before the name")
mut("c16-size-hint-too-small", "C16", NV,
    """        (0, Some(self.data.len() / 2))""",
    """        (0, Some(self.data.len() / 4))""",
    "R16.5/size_hint", "more pairs than the upper bound")

# ---- C19 -------------------------------------------------------------------------------------------------
CG = "src/cgi/mod.rs"
IN = "src/cgi/intern.rs"
mut("c19-owned-hash-raw-bytes", "C19", CG,
    """    fn hash<H: Hasher>(&self, state: &mut H) {
        self.as_var().hash(state);
    }""",
    """    fn hash<H: Hasher>(&self, state: &mut H) {
        self.as_ref().hash(state);
    }""",
    "R19.1/owned-hash-delegates", "owned and borrowed names hash differently")
mut("c19-hash-write-unfolded-remainder", "C19", CG,
    """        if !rem.is_empty() {
            arr[..rem.len()].copy_from_slice(rem);
            arr.make_ascii_uppercase();
        }""",
    """        if !rem.is_empty() {
            arr[..rem.len()].copy_from_slice(rem);
        }""",
    "R19.3/varname-hash-folds", "case-variant spellings hash differently when shorter than 16 bytes")
mut("c19-eq-exact", "C19", CG,
    """        self.0.eq_ignore_ascii_case(&other.0)""",
    """        self.0 == other.0""",
    "R19.3/varname-eq", "equality is case-sensitive")
mut("c19-fast-path-mixed", "C19", CG,
    """        if let (&Static(s1), &Static(s2)) = (&self.0, &other.0) {
            return s1 == s2;
        }
        self.as_var() == other.as_var()""",
    """        if let (&Static(s1), &Static(s2)) = (&self.0, &other.0) {
            return s1 == s2;
        }
        if matches!(self.0, Static(_)) != matches!(other.0, Static(_)) {
            return false;
        }
        self.as_var() == other.as_var()""",
    "R19.2/owned-eq", "an interned name never equals the same name stored as a custom string")
mut("c19-lowercase-table-entry", "C19", IN,
    """    CONTENT_LENGTH,
    CONTENT_TYPE,""",
    """    #[strum(serialize = "content_length")]
    CONTENT_LENGTH,
    CONTENT_TYPE,""",
    "R19.4/interned-table", "one interned name reads back in lower case")
mut("c19-string-ctor-not-normalising", "C19", CG,
    """    fn from(v: String) -> Self {
        Self::from_compact(v.into())
    }""",
    """    fn from(v: String) -> Self {
        v.as_str().into()
    }""",
    "R19.5/delegates[std::string::String]", "String constructor keeps the spelling")
mut("c19-header-prefix-dash", "C19", CG,
    """        let mut var = CompactString::const_new("HTTP_");""",
    """        let mut var = CompactString::const_new("HTTP-");""",
    "R19.6/header-mapping", "wrong prefix")

# ---- C09 -------------------------------------------------------------------------------------------------
mut("c09-writeable-without-final-check", "C09", A,
    """                if !this.writeable && this.is_final_stream() {
                    this.set_writeable();
                }""",
    """                if !this.writeable {
                    this.set_writeable();
                }""",
    "R9.4/poll_read/writeable-guard", "writeable after the first of two input streams delivers data")
mut("c09-writeable-unconditional-in-new", "C09", A,
    """        if req.role().input_streams().len() <= 1 {
            // Roles with 0 or 1 input stream(s) are writeable after reading the Params stream
            req.set_writeable();
        }""",
    """        req.set_writeable();""",
    "R9.4/new/writeable-guard", "Filter requests writeable before Stdin ended")
mut("c09-drop-consume-stream", "C09", A,
    """                let read = buf.write(avail).expect("writing into &mut [u8] should always succeed");
                this.parser.consume_stream(read);
                return Poll::Ready(Ok(read));""",
    """                let read = buf.write(avail).expect("writing into &mut [u8] should always succeed");
                return Poll::Ready(Ok(read));""",
    "R9.", "buffered bytes delivered again by the next read")
mut("c09-consume-whole-buffer", "C09", A,
    """                this.parser.consume_stream(read);
                return Poll::Ready(Ok(read));""",
    """                this.parser.consume_stream(avail.len());
                return Poll::Ready(Ok(read));""",
    "R9.2", "bytes that did not fit the caller's buffer are dropped")
mut("c09-remove-writeable-assert", "C09", A,
    """        assert!(self.writeable, "must receive final input stream to become writeable");
""", "",
    "R9.5/writer-construction", "writers handed out before the final stream")
mut("c09-first-instead-of-last", "C09", A,
    """        let stream = self.role().input_streams().last().copied();""",
    """        let stream = self.role().input_streams().first().copied();""",
    "R9.6/writeable/selects-final-stream", "writeable() waits on the first stream")
mut("c09-benign-inline-set-writeable", "C09", A,
    """                if !this.writeable && this.is_final_stream() {
                    this.set_writeable();
                }""",
    """                if !this.writeable && this.is_final_stream() {
                    this.writeable = true;
                }""",
    None, "helper inlined")

# ---- C02 -------------------------------------------------------------------------------------------------
mut("c02-stream-on-greater", "C02", ST,
    """                    // Loop around to move stream body
                    Ordering::Equal if head.content_length != 0 => State::Stream,""",
    """                    // Loop around to move stream body
                    Ordering::Equal | Ordering::Greater if head.content_length != 0 => State::Stream,""",
    "R2.", "a later stream's data is delivered as the active stream's")
mut("c02-raw-start-skips-undelivered", "C02", ST,
    """        debug_assert!(consumed <= payload_len);
        self.raw_start += consumed;""",
    """        debug_assert!(consumed <= payload_len);
        self.raw_start += payload_len;""",
    "R2.3/payload-step/same-amount", "bytes that did not fit the caller's buffer are skipped")
mut("c02-end-row-consumes-header", "C02", ST,
    """                    _ => {
                        res.stream_end = true;
                        return Ok(Break(()));
                    },""",
    """                    _ => {
                        res.stream_end = true;
                        self.raw_start = past_head;
                        return Ok(Break(()));
                    },""",
    "R2.4/stream/", "the header announcing the next stream is lost")
mut("c02-skip-state-counts-bytes", "C02", ST,
    """            State::Skip => payload_len,
""",
    """            State::Skip => {
                res.stream += 0usize.saturating_sub(payload_len);
                payload_len
            },
""",
    "R2.2/payload-step/deliver-only-in-stream", "Status.stream touched while skipping")
mut("c02-drop-dest-assert", "C02", ST,
    """        assert!(
            dest.is_none() || self.parsed_start == self.gap_start,
            "stream_buffer must be fully consumed before parsing into dest is possible",
        );
""", "",
    "R2.5/parse/dest-needs-empty-buffer", "newer bytes delivered before older buffered ones")
mut("c02-benign-split-payload-step", "C02", ST,
    """        debug_assert!(consumed <= payload_len);
        self.raw_start += consumed;
        self.payload_rem -= consumed as u16;
        debug_assert_invars!(self);
""",
    """        debug_assert!(consumed <= payload_len);
        self.account(consumed);
""",
    None, "accounting moved into a helper",
    extra=[("""    fn parse_head(&mut self, res: &mut Status) -> Result<ControlFlow, Error> {""", """    fn account(&mut self, consumed: usize) {
        self.raw_start += consumed;
        self.payload_rem -= consumed as u16;
        debug_assert_invars!(self);
    }

    fn parse_head(&mut self, res: &mut Status) -> Result<ControlFlow, Error> {""")])

# ---- C01 -------------------------------------------------------------------------------------------------
mut("c01-unnormalised-key", "C01", RQ,
    """        let name = Self::make_cgivar(name);

        // Unlike name""",
    """        let name = cgi::OwnedVarName::from(&*String::from_utf8_lossy(name));

        // Unlike name""",
    "R1.1", "a pair split across records keeps its spelling: lookups by the canonical name miss it")
mut("c01-first-value-wins", "C01", RQ,
    """        self.req.params.insert(name, val);
        self.buffer.clear();""",
    """        self.req.params.entry(name).or_insert(val);
        self.buffer.clear();""",
    "R1.2", "duplicates split across records keep the first value")
mut("c17-flags-from-wrong-byte", "C17", PB,
    """        Ok(Self { role: Role::try_from(role)?, flags: RequestFlags::from(data[2]) })""",
    """        Ok(Self { role: Role::try_from(role)?, flags: RequestFlags::from(data[3]) })""",
    "R17.7/layout[BeginRequest]", "flags taken from a reserved byte")
mut("c01-padding-from-content-length", "C01", RQ,
    """                self.payload_rem = head.content_length;
                self.padding_rem = head.padding_length;
                Continue((data, self.into_state()))""",
    """                self.payload_rem = head.content_length;
                self.padding_rem = head.content_length as u8;
                Continue((data, self.into_state()))""",
    "R1.", "padding counter loaded from the payload length")
mut("c01-params-end-on-foreign-id", "C01", RQ,
    """            fcgi::RecordType::Params if head.request_id == req_id => {""",
    """            fcgi::RecordType::Params => {""",
    "R1.4", "an empty Params record of another request ends this request's environment")
mut("c01-benign-inline-make-cgivar", "C01", RQ,
    """        self.req.params.extend((&mut nvit).map(
            |(n, v)| (Self::make_cgivar(n), SmallBytes::from_slice(v)),
        ));""",
    """        self.req.params.extend((&mut nvit).map(
            |(n, v)| (cgi::OwnedVarName::from_compact(CompactString::from_utf8_lossy(n)), SmallBytes::from_slice(v)),
        ));""",
    None, "helper inlined at one call site")


# ---- compound: a refactoring from selftest/benign first, then a breaking edit of the refactored code -------------------
# (the generalised matchers must keep their detecting power on the forms they were generalised for)
mut("x-c15-split-buffers-bit-not-cleared", "C15", VI,
    """Ok(Self(u32::from_be_bytes([first & !Self::LONG_BIT, b1, b2, b3])))""",
    """Ok(Self(u32::from_be_bytes([first, b1, b2, b3])))""",
    "O4/read/forms", "long form keeps the marker bit", base="s5-r4")
mut("x-c15-split-buffers-wrong-order", "C15", VI,
    """Ok(Self(u32::from_be_bytes([first & !Self::LONG_BIT, b1, b2, b3])))""",
    """Ok(Self(u32::from_be_bytes([first & !Self::LONG_BIT, b2, b1, b3])))""",
    "O4/read/forms", "bytes swapped", base="s5-r4")
mut("x-c15-helper-threshold-le", "C15", VI,
    """        self.0 < Self::LONG_BIT as u32""",
    """        self.0 <= Self::LONG_BIT as u32""",
    "O4/write/forms", "128 encoded in the short form", base="s5-r5")
mut("x-c15-helper-long-encoding-no-bit", "C15", VI,
    """        [b0 | Self::LONG_BIT, b1, b2, b3]""",
    """        [b0, b1, b2, b3]""",
    "O4/write/forms", "long form without the marker bit", base="s5-r5")
mut("x-c15-tail-slice-off-by-one", "C15", VI,
    """            &long[3..]""",
    """            &long[2..]""",
    "O4/write/forms", "short form writes two bytes", base="q5-r6")
mut("x-c05-inlined-compaction-dest", "C05", "src/parser/request.rs",
    """            self.input.copy_within(used_len..self.input_len, 0);""",
    """            self.input.copy_within(used_len..self.input_len, 1);""",
    "R5.4/move_input", "remainder moved to offset 1 (compaction written out in parse)", base="s1-r5")
mut("x-c05-inlined-compaction-len", "C05", "src/parser/request.rs",
    """        self.input_len = rem_len;
""",
    """        self.input_len = used_len;
""",
    "R5.4/move_input", "input_len set to the consumed length", base="s1-r5")
mut("x-c19-loop-one-side-unfolded", "C19", "src/cgi/mod.rs",
    """            match l.to_ascii_uppercase().cmp(&r.to_ascii_uppercase()) {""",
    """            match l.cmp(&r.to_ascii_uppercase()) {""",
    "R19.3/varname-cmp", "left byte not folded", base="s6-r8")
mut("x-c19-loop-tie-break-reversed", "C19", "src/cgi/mod.rs",
    """        lhs.len().cmp(&rhs.len())""",
    """        rhs.len().cmp(&lhs.len())""",
    "R19.3/varname-cmp", "longer name sorts first", base="s6-r8")
mut("x-c04-tuple-match-duplicate-begin", "C04", "src/parser/stream.rs",
    """            (fcgi::RecordType::BeginRequest, false) => {""",
    """            (fcgi::RecordType::BeginRequest, _) => {""",
    "R4.1/stream/begin-duplicate", "a duplicate BeginRequest of the running request is answered CantMpxConn", base="s2-r3")
mut("x-c08-future-newtype-no-flush", "C08", A,
    """            ready!(Pin::new(&mut *this).poll_output(cx))?;
            this.parser.compress();""",
    """            this.parser.compress();""",
    "async_io::Request::poll_input/wait-input[Fstr]", "site 2 of the fixed defect, reached through a hand-written Future", base="s3-r1")
mut("x-c20-closure-count", "C20", "src/cgi/response.rs",
    """        Ok(name.len() + val.len() + 3)""",
    """        Ok(name.len() + val.len() + 2)""",
    "R20.2/write_headers/count", "count misses the line break (line written by a local closure)", base="s6-r6")
mut("x-c17-assoc-const-wrong-type", "C17", "src/protocol/body.rs",
    """    const RTYPE: RecordType = RecordType::EndRequest;""",
    """    const RTYPE: RecordType = RecordType::Unknown;""",
    "R17.3/to_record[EndRequest]", "EndRequest framed as Unknown (type from an associated const)", base="s5-r3")
mut("x-c18-derived-eq-wrong-role", "C18", "src/protocol/fields.rs",
    """            Some(Stdin) if self == Self::Filter => Some(Data),""",
    """            Some(Stdin) if self == Self::Responder => Some(Data),""",
    "R18.1/next_input_stream", "Responder gets a Data stream", base="s5-r8")
mut("x-c09-fill-buf-empty", "C09", A,
    """            Ok(_) => Poll::Ready(Ok(self.into_ref().get_ref().parser.stream_buffer())),""",
    """            Ok(_) => Poll::Ready(Ok(&[])),""",
    "R9.1/poll_fill_buf/returns-stream-buffer", "poll_fill_buf always reports end of stream", base="s3-r8")
mut("x-c13-clone-new-semaphore", "C13", A,
    """        Self::from_shared(self.config.clone(), self.sema.clone())""",
    """        Self::from_shared(self.config.clone(), Arc::new(async_lock::Semaphore::new(self.config.max_conns.get())))""",
    "R13.2/", "a cloned runner gets a fresh semaphore (through the shared private constructor)", base="s4-r6")

mut("c03-unknown-type-header-not-consumed", "C03", "src/parser/stream.rs",
    """                self.state = State::Skip;
                self.raw_start = past_head;
                return Ok(Continue(()));""",
    """                self.state = State::Skip;
                return Ok(Continue(()));""",
    "R3.12/", "the header of an unknown-type record is parsed again and again: parse() never returns")

mut("c03-skip-continues-with-itself", "C03", "src/parser/request.rs",
    """            Continue((&mut data[total..], self.next.into_state()))
        }
    }
}""",
    """            let rest = &mut data[total..];
            if rest.is_empty() {
                return Continue((rest, self.next.into_state()));
            }
            self.payload_rem = 0;
            self.padding_rem = 0;
            Continue((rest, T::wrap_skip(self)))
        }
    }
}""",
    "R3.13/SkipState::drive/hands-over", "a finished skip re-enters itself once per call instead of handing over: harmless only because it then skips 0 bytes; one more such hop per record, and with `total == 0` the drive loop spins")
mut("c03-header-continue-without-consuming", "C03", "src/parser/request.rs",
    """                let vals = GetValuesState::new(self, head.content_length, head.padding_length);
                return Continue((&mut data[fcgi::RecordHeader::LEN..], Self::wrap_values(vals)));""",
    """                let vals = GetValuesState::new(self, head.content_length, head.padding_length);
                let skip_head = if head.content_length == 0 && head.padding_length == 0xff { 0 } else { fcgi::RecordHeader::LEN };
                return Continue((&mut data[skip_head..], Self::wrap_values(vals)));""",
    "R3.13/HeaderState::drive/", "a GetValues header with a particular length combination is not consumed")

mut("c03-skip-breaks-after-complete-record", "C03", "src/parser/request.rs",
    """            Continue((&mut data[total..], self.next.into_state()))
        }
    }
}""",
    """            if total == 0 {
                return Continue((data, self.next.into_state()));
            }
            Break((&mut data[total..], self.next.into_state()))
        }
    }
}""",
    "R3.13/SkipState::drive/stops-only-when-incomplete", "a completely skipped record ends the parse call: the outcome depends on the chunking")
mut("c11-abort-breaks-drive", "C11", "src/parser/request.rs",
    """                let initial = HeaderState.into_skip(head.content_length, head.padding_length);
                Continue((data, initial))""",
    """                let initial = HeaderState.into_skip(head.content_length, head.padding_length);
                Break((data, initial))""",
    "abort", "after an abort during Params the rest of the chunk is left unparsed (seed C11-d)")

mut("x-c07-enum-flag-epilogue-inverted", "C07", A,
    """            Writeability::Reached => self.role().output_streams(),
            Writeability::Pending => &[],""",
    """            Writeability::Reached => &[],
            Writeability::Pending => self.role().output_streams(),""",
    "R7.3/close/streams-iff-writeable", "stream-end records sent exactly when the request never became writeable (flag as a private enum)", base="u2-r8")
mut("x-c09-enum-flag-raised-unconditionally", "C09", A,
    """                if !this.is_writeable() && this.is_final_stream() {""",
    """                if !this.is_writeable() {""",
    "R9.4/poll_read/writeable-guard", "writeable raised without reaching the final stream (flag as a private enum)", base="u2-r8")

mut("c13-token-dropped-before-last-await", "C13", A,
    """                None => return,
            };
        }
    }""",
    """                None => {
                    drop(self);
                    futures_util::future::ready(()).await;
                    return;
                },
            };
        }
    }""",
    "R13.5/", "the token is dropped before the task's last suspension point: the slot is reused while the connection is still open (seed C13-g)")
mut("c14-clone-shares-wait-group", "C14", A,
    """        Self { config: self.config.clone(), sema: self.sema.clone(), stop, wg: WaitGroup::new() }""",
    """        Self { config: self.config.clone(), sema: self.sema.clone(), stop, wg: self.wg.clone() }""",
    "R14.6/runner-wg", "a cloned runner shares the wait group: its shutdown waits for the other runner's tokens (seed C14-f)",
    extra=[("src/async_io/util.rs", "#[derive(Default)]\npub(crate) struct WaitGroup(", "#[derive(Clone, Default)]\npub(crate) struct WaitGroup(")])
mut("c11-into-skip-sum-overflows", "C11", "src/parser/request.rs",
    """        if (payload_rem | u16::from(padding_rem)) == 0 {""",
    """        if payload_rem + u16::from(padding_rem) == 0 {""",
    "R11.8/into_skip", "65535 + 1 wraps (release) or panics (debug): the body of an abort record is not skipped (seed C11-f)")

# ---- sweep w: the tail-slice spelling of parse_stream (w1-r8), the free-function spelling of the buffer alignment (w6-r8) ----------------
mut("x-c06-tail-form-record-end-unconsumed", "C06", "src/parser/request.rs",
    """            &mut []
        } else {
            data
        }""",
    """            data
        } else {
            data
        }""",
    "R6.5/parse_stream", "record end: the remainder is buffered but handed back as unconsumed (tail-slice form of parse_stream)", base="w1-r8")
mut("x-c03-tail-form-consumed-overcount", "C03", "src/parser/request.rs",
    """                let consumed = available - rest.len();""",
    """                let consumed = available + 2 - rest.len();""",
    "R3.11/", "consumed can exceed what was available: payload_rem underflows (tail-slice form)", base="w1-r8")
mut("x-c06-free-align-rounds-down", "C06", "src/lib.rs",
    """    match buffer_size.checked_add(7) {
        Some(r) => r & !7,
        None => usize::MAX,
    }""",
    """    buffer_size & !7""",
    "R6.3/", "the free-function alignment helper rounds down (seed C01-g on the refactored tree)", base="w6-r8")
mut("x-c20-named-range-off-by-one", "C20", "src/cgi/response.rs",
    """    const STATUS_CODE_POS: Range<usize> = 8..11;""",
    """    const STATUS_CODE_POS: Range<usize> = 7..10;""",
    "R20.1/write_headers", "the status code overwrites the space after `Status:` (named range constant)", base="w6-r2")
mut("x-c19-zip-loop-returns-on-equal", "C19", "src/cgi/mod.rs",
    """            if ord.is_ne() {""",
    """            if ord.is_eq() {""",
    "R19.3/varname-cmp", "the explicit comparison loop leaves on the first equal byte pair", base="w6-r7")
mut("x-c19-zip-loop-mixed-fold", "C19", "src/cgi/mod.rs",
    """            let ord = l.to_ascii_uppercase().cmp(&r.to_ascii_uppercase());""",
    """            let ord = l.to_ascii_uppercase().cmp(&r.to_ascii_lowercase());""",
    "R19.3/varname-cmp", "the two sides are folded differently", base="w6-r7")

# ---- round h -----------------------------------------------------------------------------------------------------------------------------
mut("c04-final-state-yields-stale-output", "C04", "src/parser/request.rs",
    """        self.input_len += new_input;
        self.output.clear();
""",
    """        self.input_len += new_input;
        if matches!(self.state, State::Done(_) | State::Fatal(_)) {
            return Yield { done: true, output: &self.output };
        }
        self.output.clear();
""",
    "R4.6/", "a call after done / a fatal error hands the previous call's replies out again (seeds C03-h, C04-h)")
mut("c17-flags-encode-masks-unknown-bits", "C17", "src/protocol/fields.rs",
    """        v.bits()
    }""",
    """        v.intersection(RequestFlags::all()).bits()
    }""",
    "R17.10/", "a BeginRequest body with an undefined flag bit no longer re-encodes to itself (seed C17-h)")
mut("c17-flags-decode-truncates", "C17", "src/protocol/fields.rs",
    """        Self::from_bits_retain(v)""",
    """        Self::from_bits_truncate(v)""",
    "R17.10/", "undefined flag bits are dropped while decoding")

# ---- sweep x ------------------------------------------------------------------------------------------------------------------------------
mut("x-c03-map-or-total-one-short", "C03", "src/parser/request.rs",
    """            .map_or((payload, true), |t| (t, false));""",
    """            .map_or((payload, true), |t| (t - 1, false));""",
    "R3.11/SkipState::drive", "the record's total length is one short, and underflows for an empty record (inside the closure of the Option::map_or form)", base="x1-r2")
mut("x-c18-check-sequence-is-le", "C18", "src/parser/stream.rs",
    """        if cmp_input_streams(role, new, self.stream).is_lt() {""",
    """        if cmp_input_streams(role, new, self.stream).is_le() {""",
    "R18.2/", "re-selecting the current stream is rejected (helper + Ordering predicate form)", base="x2-r6")
mut("x-c18-check-sequence-is-gt", "C18", "src/parser/stream.rs",
    """        if cmp_input_streams(role, new, self.stream).is_lt() {""",
    """        if cmp_input_streams(role, new, self.stream).is_gt() {""",
    "R18.2/", "later streams are rejected and earlier ones accepted (helper + Ordering predicate form)", base="x2-r6")
mut("x-c19-match-form-fast-path-for-mixed", "C19", "src/cgi/mod.rs",
    """            (VarNameInner::Static(lhs), VarNameInner::Static(rhs)) => lhs == rhs,
            _ => self.as_var() == other.as_var(),""",
    """            (VarNameInner::Static(lhs), VarNameInner::Static(rhs)) => lhs == rhs,
            (VarNameInner::Static(_), _) | (_, VarNameInner::Static(_)) => false,
            _ => self.as_var() == other.as_var(),""",
    "R19.2/owned-eq", "an interned name never equals a custom spelling of itself (match form)", base="x6-r7")

# ---- nv::write in fold form (t5-r5, w5-r8): decided by E8 with closures, Result combinators and array folds -------------------------------
mut("x-c16-fold-count-not-accumulated", "C16", "src/protocol/nv.rs",
    """        len.write(&mut w).map(|n| written + n)""",
    """        len.write(&mut w).map(|n| written.max(n))""",
    "R16.4/write", "the fold keeps the larger prefix length instead of the sum", base="t5-r5")
mut("x-c16-fold-prefix-order-swapped", "C16", "src/protocol/nv.rs",
    """    let head_len = [name.len(), value.len()].into_iter().try_fold(0, |written, len| {""",
    """    let head_len = [value.len(), name.len()].into_iter().try_fold(0, |written, len| {""",
    "R16.4/write", "the value's length prefix is written before the name's", base="w5-r8")
mut("x-c16-fold-wrong-error-kind", "C16", "src/protocol/nv.rs",
    """            .map_err(|e| io::Error::new(io::ErrorKind::InvalidInput, e))
            .and_then(|v| v.write(&mut w))""",
    """            .map_err(|e| io::Error::new(io::ErrorKind::InvalidData, e))
            .and_then(|v| v.write(&mut w))""",
    "R16.4/write", "an oversized length is reported as InvalidData", base="w5-r8")
mut("x-c16-fold-constant-prefix-count", "C16", "src/protocol/nv.rs",
    """            .map(|n| written + n)""",
    """            .map(|_| written + 1)""",
    "R16.4/write", "every prefix is counted as one byte", base="w5-r8")

# ---- round i ---------------------------------------------------------------------------------------------------------------------------
mut("c04-getvalues-name-through-flags-parser", "C04", "src/protocol/vars.rs",
    """            Ok(s) => Self::from_name(s).ok_or(ProtocolError::UnknownVariable),""",
    """            Ok(s) => s.parse().map(Self).map_err(|_| ProtocolError::UnknownVariable),""",
    "R4.7/", "`A|B`, hex literals and padded names select variables nobody asked for (seed C04-i)")
mut("c19-interned-alias", "C19", "src/cgi/intern.rs",
    """    AUTH_TYPE,
    CONTENT_LENGTH,""",
    """    AUTH_TYPE,
    #[strum(to_string = "CONTENT_LENGTH", serialize = "HTTP_CONTENT_LENGTH")]
    CONTENT_LENGTH,""",
    "R19.7/", "HTTP_CONTENT_LENGTH is interned as CONTENT_LENGTH (seed C19-i)")
mut("c16-decoder-rejects-nonminimal-prefix", "C16", "src/protocol/varint.rs",
    """        Ok(Self(u32::from_be_bytes(buf)))""",
    """        match u32::from_be_bytes(buf) {
            v if v < Self::LONG_BIT.into() => Err(io::ErrorKind::InvalidData.into()),
            v => Ok(Self(v)),
        }""",
    "R16.7/", "a complete pair with a four-byte prefix below 128 stops the iterator (seeds C03-i, C16-i)")
mut("c03-try-fill-unguarded-split", "C03", "src/parser/request.rs",
    """            if $inp.len() >= needed {
                let head;
                (head, $inp) = $inp.split_at_mut(needed);
                $vec.extend(&*head);
            } else if $must_move {
                $vec.extend(&*$inp);
                return &mut [];
            } else {
                return $inp;
            }""",
    """            if $must_move && $inp.len() < needed {
                $vec.extend(&*$inp);
                return &mut [];
            }
            let head;
            (head, $inp) = $inp.split_at_mut(needed);
            $vec.extend(&*head);""",
    "R3.11/parse_buffered", "a pair's length header split across two records and then a short chunk: split_at_mut panics (seed C12-i)")

# ---- sweep y (additive pull requests) ----------------------------------------------------------------------------------------------------
mut("x-c13-try-get-token-own-semaphore", "C13", "src/async_io/mod.rs",
    """        let sg = self.sema.try_acquire_arc()?;""",
    """        let sg = Arc::new(async_lock::Semaphore::new(self.config.max_conns.get())).try_acquire_arc()?;""",
    "R13.1/token-field[_sg]", "the non-blocking sibling of get_token takes its permit from a semaphore of its own", base="y4-r2")
mut("x-c13-from-config-wrong-size", "C13", "src/async_io/mod.rs",
    """        let sema = async_lock::Semaphore::new(config.max_conns.get());
        let stop = event_listener::Event::new();
        Self { config, sema: sema.into(), stop, wg: WaitGroup::new() }""",
    """        let sema = async_lock::Semaphore::new(config.buffer_size);
        let stop = event_listener::Event::new();
        Self { config, sema: sema.into(), stop, wg: WaitGroup::new() }""",
    "R13.2/semaphore-size", "the second constructor sizes the semaphore by the buffer size", base="y4-r4")
mut("x-c06-flags-form-stuck-not-reported", "C06", "src/parser/request.rs",
    """        Yield { done: finished || stuck, output: &self.output }""",
    """        Yield { done: finished, output: &self.output }""",
    "R6.2/parse", "a stuck parser is latched but the call does not report done (flag form of y1-r8)", base="y1-r8")

# ---- sweep z (performance-minded refactorings) ----------------------------------------------------------------------------------------
mut("x-c17-branchless-padding-wrong-modulus", "C17", "src/protocol/mod.rs",
    """        self.padding_length = (content_length.wrapping_neg() % 8) as u8;""",
    """        self.padding_length = (content_length.wrapping_neg() % 16) as u8;""",
    "R17.6/set_lengths", "the branchless padding formula with the wrong modulus pads up to 15 bytes", base="z5-r6")
mut("x-c17-branchless-padding-not-negated", "C17", "src/protocol/mod.rs",
    """        self.padding_length = (content_length.wrapping_neg() % 8) as u8;""",
    """        self.padding_length = (content_length % 8) as u8;""",
    "R17.6/set_lengths", "the padding is the remainder itself instead of its complement", base="z5-r6")
mut("x-c16-data-len-measured-after-first-read", "C16", "src/protocol/nv.rs",
    """        let data_len = cur.len();
        let name_len = VarInt::read(&mut cur).ok()?.try_into().ok()?;""",
    """        let name_len = VarInt::read(&mut cur).ok()?.try_into().ok()?;
        let data_len = cur.len();""",
    "R16.2/next", "the reference length is taken after the first prefix was read: head_len misses that prefix", base="z5-r1")
mut("x-c06-drained-exit-reports-nothing-consumed", "C06", "src/parser/request.rs",
    """            // No complete pair to extract and no partial pair to carry over
            return len;""",
    """            // No complete pair to extract and no partial pair to carry over
            return 0;""",
    "R6.5/parse_stream", "the early exit for an empty remainder reports nothing consumed although parse_buffered consumed the slice", base="z1-r4")
mut("x-c10-orig-len-from-other-local", "C10", "src/async_io/mod.rs",
    """            this.orig_len = record_len;""",
    """            this.orig_len = u16::MAX;""",
    "R10.3/poll_write/orig_len-init", "orig_len is not the length the record was started with", base="z3-r2")

# ---- round k ---------------------------------------------------------------------------------------------------------------------------
mut("c14-pending-without-registration", "C14", "src/async_io/util.rs",
    """        // Weak::upgrade returns None iff all TaskTokens have been dropped
        match self.0.upgrade() {""",
    """        if self.0.strong_count() > 1 {
            // more than one task left: the last one is still far away
            return Poll::Pending;
        }
        // Weak::upgrade returns None iff all TaskTokens have been dropped
        match self.0.upgrade() {""",
    "R14.2/pending-registers-waker", "a Pending return that does not register the current waker (seed C14-k)")
mut("c09-read-polled-before-flush", "C09", "src/async_io/mod.rs",
    """            ready!(Pin::new(&mut *this).poll_output(cx))?;
            this.parser.compress();
            let buf = this.parser.input_buffer();
            read = ready!(Pin::new(&mut this.input).poll_read(cx, buf))?;""",
    """            this.parser.compress();
            let buf = this.parser.input_buffer();
            let input = Pin::new(&mut this.input).poll_read(cx, buf);
            ready!(Pin::new(&mut *this).poll_output(cx))?;
            read = ready!(input)?;""",
    "R9.7/", "the transport is polled first and its result looked at only after the flush: a Pending flush loses a ready read (seed C07-k)")
mut("x-c17-lazy-limit-from-buffer-size", "C17", "src/protocol/vars.rs",
    """                    max_conns.get_or_insert_with(|| config.max_conns.to_compact_string())""",
    """                    max_conns.get_or_insert_with(|| config.buffer_size.to_compact_string())""",
    "R17.5/write_response/values", "the lazily formatted limit is the buffer size, not max_conns", base="z5-r5")
mut("x-c17-epilogue-rtype-never-patched", "C17", "src/protocol/body.rs",
    """        rec.rtype = s;
""",
    """        let _ = s;
""",
    "R17.4/epilogue-language", "every stream end header of the epilogue carries the placeholder type (header built once before the loop)", base="z5-r4")
mut("c17-empty-subset-no-reply", "C17", "src/protocol/vars.rs",
    """        // Reserve space for the header in out, which may already contain data
        let start = out.len();""",
    """        if self.is_empty() {
            return 0;
        }
        // Reserve space for the header in out, which may already contain data
        let start = out.len();""",
    "R17.5/write_response/every-path-one-record", "a query naming only unknown variables gets no GetValuesResult at all (seed C17-j)")

# ---- sweep a (code moved into new private submodules) ------------------------------------------------------------------------------------
mut("x-c15-moved-conversion-range-check-ge", "C15", "src/protocol/varint/convert.rs",
    """        if v > Self::MAX.into() {""",
    """        if v >= Self::MAX.into() {""",
    "O2/try_from_u32", "MAX itself rejected (the conversions live in a new submodule)", base="a5-r3")
mut("x-c03-moved-skip-state-overshoots", "C03", "src/parser/request/skip.rs",
    """        if let Some(new_payload_rem @ 1..) = payload.checked_sub(data.len()) {""",
    """        if let Some(new_payload_rem @ 1..) = payload.checked_sub(data.len() + 1) {""",
    "R3.11/SkipState::drive", "the skip arithmetic is off by one (SkipState lives in a new submodule)", base="a1-r1")

# ---- round l follow-ups ----------------------------------------------------------------------------------
mut("c07-own-lock-bound-not-dropped", "C07", A,
    """        std::mem::drop(self.lock);
        let writers = Arc::strong_count(&self.output) - 1;""",
    """        let _held = self.lock;
        let writers = Arc::strong_count(&self.output) - 1;""",
    "R7.10/close/own-lock-released", "the request's own output lock is moved into a binding that lives to the end of close(): try_unwrap can then only time out on itself")
mut("c01-stuck-verdict-for-finished-parser", "C01", "src/parser/request.rs",
    """        if !done && self.input_len == self.input.len() {""",
    """        if (!done || rem_len > 0) && self.input_len == self.input.len() {""",
    "R1.9/parse/stuck-detection", "a finished parser whose buffer is filled with look-ahead is overwritten with StuckOnInput")
mut("c05-stuck-verdict-for-finished-parser", "C05", "src/parser/request.rs",
    """        if !done && self.input_len == self.input.len() {""",
    """        if (!done || rem_len > 0) && self.input_len == self.input.len() {""",
    "R5.8/parse/stuck-detection", "a finished parser whose buffer is filled with look-ahead is overwritten with StuckOnInput")

# ---- round m follow-ups ----------------------------------------------------------------------------------
mut("c12-epilogue-write-result-abandoned-on-close-path", "C12", A,
    """        output.write_all(&endreq).await?;
        crate::macros::trace!("management records flushed");

        // Extract request::Parser if connection should be reused
        if self.parser.request.flags.contains(fcgi::RequestFlags::KeepConn) {""",
    """        let sent = output.write_all(&endreq).await;
        crate::macros::trace!("management records flushed");

        // Extract request::Parser if connection should be reused
        if self.parser.request.flags.contains(fcgi::RequestFlags::KeepConn) {
            sent?;""",
    "R12.8/async_io::Request::close/inspected-on-every-path[sent]", "the result of the epilogue write is looked at only when the connection is kept; otherwise it is dropped and ConnectionReset is reported instead of the write error")
mut("c05-parse-retried-with-spent-count", "C05", A,
    """            let status = parser.parse(read);
            if !status.output.is_empty() {
                output.write_all(status.output).await?;
                crate::macros::trace!("management records flushed");
            }""",
    """            let status = parser.parse(read);
            if !status.output.is_empty() {
                if let Err(e) = output.write_all(status.output).await {
                    if e.kind() == io::ErrorKind::Interrupted { continue; }
                    return Err(e);
                }
                crate::macros::trace!("management records flushed");
            }""",
    "R5.9/parse_request/count-used-once", "an interrupted reply write loops back to parse(read) with the count of the previous read")
mut("c02-payload-step-reports-full-destination-as-error", "C02", "src/parser/stream.rs",
    """        assert!(new_input <= self.buffer.len() - self.free_start);
        self.free_start += new_input;
""",
    """        assert!(new_input <= self.buffer.len() - self.free_start);
        self.free_start += new_input;
        if matches!(dest, Some(ref d) if d.is_empty()) && self.raw_start < self.free_start {
            return Err(Error::StuckOnInput);
        }
""",
    "R2.9/Parser::parse/no-error-constructed", "an empty destination with buffered protocol data is reported as an error: the outcome depends on the caller's buffer, not on the records")
mut("c01-pair-buffer-cleared-when-record-ends-mid-pair", "C01", "src/parser/request.rs",
    """        if body_buffered.saturating_add(data.len()) < body_len {
            if rec_end {
                self.buffer.extend(&*data);
                return &mut [];
            }
            return data;
        }""",
    """        if body_buffered.saturating_add(data.len()) < body_len {
            if rec_end {
                if self.buffer.len() + data.len() > usize::from(u16::MAX) {
                    self.buffer.clear();
                    return &mut [];
                }
                self.buffer.extend(&*data);
                return &mut [];
            }
            return data;
        }""",
    "R1.10/ParamsStateInner::parse_buffered/clear", "a pair spread over more than 65535 buffered bytes is dropped instead of collected ('defensive' cap)")
mut("c17-reply-header-content-length-capped", "C17", "src/protocol/vars.rs",
    """        head.set_lengths(len as u16);
""",
    """        head.set_lengths(len as u16);
        head.content_length = head.content_length.min((Self::RESPONSE_LEN - RecordHeader::LEN) as u16);
""",
    "R17.5/write_response/header-as-sized", "the content length of the reply header is clamped after set_lengths sized the record")
mut("c19-lookup-key-trimmed-of-whitespace", "C19", "src/cgi/mod.rs",
    """        Self(match name.parse() {""",
    """        Self(match name.trim().parse() {""",
    "R19.5/from_compact/lookup-key", "the interning lookup ignores surrounding whitespace: ' HTTPS' is interned as HTTPS by the normalising constructors only")

# ---- sweep b generalisations must not hide a break ----------------------------------------------------------
mut("x-c06-next-multiple-of-4", "C06", "src/lib.rs",
    """self.buffer_size.checked_next_multiple_of(8)""",
    """self.buffer_size.checked_next_multiple_of(4)""",
    "R6.3/aligned_bufsize", "rounded up to a multiple of 4 only (next_multiple_of spelling)", base="b6-r1")
mut("x-c17-shift-spelling-bytes-swapped", "C17", "src/protocol/mod.rs",
    """content_length: (u16::from(data[4]) << 8) | u16::from(data[5]),""",
    """content_length: (u16::from(data[5]) << 8) | u16::from(data[4]),""",
    "R17.7", "content length decoded little-endian (shift spelling of from_be_bytes)", base="b5-r1")
mut("x-c17-next-multiple-of-padding-off", "C17", "src/protocol/mod.rs",
    """self.padding_length = (wide.next_multiple_of(8) - wide) as u8;""",
    """self.padding_length = ((wide + 1).next_multiple_of(8) - wide) as u8;""",
    "R17.6/set_lengths", "padding one too large for aligned lengths (next_multiple_of spelling)", base="b5-r1")
mut("x-c19-loop-returns-on-greater-only", "C19", "src/cgi/mod.rs",
    """            if ord != std::cmp::Ordering::Equal {""",
    """            if ord == std::cmp::Ordering::Greater {""",
    "R19.3/varname-cmp", "the byte loop only leaves on Greater: a smaller byte is skipped over", base="b6-r4")
mut("x-c15-long-bit-shifted-to-wrong-position", "C15", "src/protocol/varint.rs",
    """(self.0 | (u32::from(Self::LONG_BIT) << 24)).to_be_bytes()""",
    """(self.0 | (u32::from(Self::LONG_BIT) << 23)).to_be_bytes()""",
    "O4/write", "the long-form marker lands in bit 6 of the first byte (or-into-word spelling)", base="b5-r2")
mut("x-c03-values-loop-overcounts", "C03", "src/parser/stream.rs",
    """                if raw_len < self.payload_rem.into() {
                    payload_len - remaining""",
    """                if raw_len < self.payload_rem.into() {
                    payload_len - remaining + 1""",
    "R3.11/stream::parse_payload", "one byte too many reported consumed after the explicit GetValues loop", base="b2-r5")
mut("c03-values-arm-overcounts", "C03", "src/parser/stream.rs",
    """                if raw_len < self.payload_rem.into() {
                    payload_len - remaining""",
    """                if raw_len < self.payload_rem.into() {
                    payload_len - remaining + 1""",
    "R3.11/stream::parse_payload", "one byte too many reported consumed for a partial GetValues body")
mut("x-c19-cow-owned-through-str", "C19", "src/cgi/mod.rs",
    """            Cow::Owned(o) => Self::from(o),""",
    """            Cow::Owned(o) => Self::from(o.as_str()),""",
    "R19.5/from-cow", "an owned Cow goes through the non-normalising &str constructor (Self::from spelling)", base="b6-r6")
