#!/bin/sh
# Build the fact extractor and warm the dependency target dir; everything offline.
set -e
cd "$(dirname "$0")/.."
export CARGO_NET_OFFLINE=true
(cd driver && cargo build --release --offline)
python3 engine/facts.py
# warm the witness target dir (compiles /repo once for the compile-fail witnesses)
python3 - <<'PY'
import sys, os
sys.path.insert(0, os.path.join(os.getcwd(), "engine"))
import check, witness
witness.run(check.Report("C14", "quick"), "C14")
PY
