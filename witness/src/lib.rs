//! E7 — compile-fail witnesses for the type-level remainder of the properties.
//!
//! Every witness is a `compile_fail,E0xxx` doctest (the nightly toolchain enforces the error code) and
//! has a compiling twin that differs only in the offending line, so a witness can never pass merely
//! because some path or name in it is wrong.

#![allow(dead_code, unused)]

use std::io;

use fastcgi_server::async_io::{Request, Runner, StreamWriter, Token};
use fastcgi_server::parser::{request, stream};
use fastcgi_server::protocol as fcgi;
use fastcgi_server::{Config, ExitStatus};

/// C14 — `Runner::shutdown` consumes the runner: no token can be requested afterwards.
///
/// ```compile_fail,E0382
/// use fastcgi_server::Config;
/// let runner = Config::with_conns(1.try_into().unwrap()).async_runner();
/// let waiter = runner.shutdown();
/// let fut = runner.get_token(); // use after move
/// ```
///
/// Twin (compiles): the token is requested before the shutdown.
/// ```
/// use fastcgi_server::Config;
/// let runner = Config::with_conns(1.try_into().unwrap()).async_runner();
/// let fut = runner.get_token();
/// drop(fut);
/// let waiter = runner.shutdown();
/// ```
pub mod c14_shutdown_consumes {}

/// C13 — a `Token` cannot be cloned (a clone would duplicate the permit).
///
/// ```compile_fail,E0277
/// fn needs_clone<T: Clone>() {}
/// needs_clone::<fastcgi_server::async_io::Token>();
/// ```
///
/// Twin (compiles): the same requirement for the cloneable `Runner`.
/// ```
/// fn needs_clone<T: Clone>() {}
/// needs_clone::<fastcgi_server::async_io::Runner>();
/// ```
pub mod c13_token_not_clone {}

/// C13 — a `Token` cannot be forged: its fields are private, `Runner::get_token` is the only source.
///
/// ```compile_fail,E0451
/// fn forge(t: fastcgi_server::async_io::Token) -> fastcgi_server::async_io::Token {
///     fastcgi_server::async_io::Token { ..t } // rebuilding needs access to every (private) field
/// }
/// ```
///
/// Twin (compiles): the token is passed through untouched.
/// ```
/// fn forge(t: fastcgi_server::async_io::Token) -> fastcgi_server::async_io::Token {
///     t
/// }
/// ```
pub mod c13_token_not_constructible {}

/// C07 — the handler only gets `&mut Request`, so it cannot call `close` (which takes `self`): exactly the
/// connection task ends the request.
///
/// ```compile_fail,E0507
/// use fastcgi_server::async_io::Request;
/// use fastcgi_server::ExitStatus;
/// async fn handler<R, W>(req: &mut Request<'_, R, W>)
/// where R: futures_util::io::AsyncRead + Unpin, W: futures_util::io::AsyncWrite + Unpin {
///     let _ = (*req).close(ExitStatus::SUCCESS).await; // cannot move out of a mutable reference
/// }
/// ```
///
/// Twin (compiles): with ownership of the request, `close` is callable.
/// ```
/// use fastcgi_server::async_io::Request;
/// use fastcgi_server::ExitStatus;
/// async fn owner<R, W>(req: Request<'_, R, W>)
/// where R: futures_util::io::AsyncRead + Unpin, W: futures_util::io::AsyncWrite + Unpin {
///     let _ = req.close(ExitStatus::SUCCESS).await;
/// }
/// ```
pub mod c07_handler_cannot_close {}

/// C07 — nothing can use a request after `close`.
///
/// ```compile_fail,E0382
/// use fastcgi_server::async_io::Request;
/// use fastcgi_server::ExitStatus;
/// async fn owner<R, W>(req: Request<'_, R, W>)
/// where R: futures_util::io::AsyncRead + Unpin, W: futures_util::io::AsyncWrite + Unpin {
///     let _ = req.close(ExitStatus::SUCCESS).await;
///     let _ = req.is_writeable(); // use after move
/// }
/// ```
///
/// Twin (compiles): the query happens before `close`.
/// ```
/// use fastcgi_server::async_io::Request;
/// use fastcgi_server::ExitStatus;
/// async fn owner<R, W>(req: Request<'_, R, W>)
/// where R: futures_util::io::AsyncRead + Unpin, W: futures_util::io::AsyncWrite + Unpin {
///     let _ = req.is_writeable();
///     let _ = req.close(ExitStatus::SUCCESS).await;
/// }
/// ```
pub mod c07_no_use_after_close {}

/// C09 / C10 — a `StreamWriter` cannot be constructed outside `Request::output_stream` (which asserts
/// writeability and role membership): its fields are private.
///
/// ```compile_fail,E0451
/// fn forge<W>(w: fastcgi_server::async_io::StreamWriter<W>) -> fastcgi_server::async_io::StreamWriter<W> {
///     fastcgi_server::async_io::StreamWriter { ..w } // rebuilding needs access to every (private) field
/// }
/// ```
///
/// Twin (compiles): cloning an existing writer is the only other source.
/// ```
/// fn forge<W>(w: fastcgi_server::async_io::StreamWriter<W>) -> fastcgi_server::async_io::StreamWriter<W> {
///     w.clone()
/// }
/// ```
pub mod c09_writer_not_constructible {}

/// C05 — parser conversions consume the parser: no byte can be read through the old parser afterwards.
///
/// ```compile_fail,E0382
/// use fastcgi_server::parser::request::Parser;
/// fn convert(p: Parser<'_>) {
///     let s = p.into_stream_parser();
///     let _ = p.into_request(); // use after move
/// }
/// ```
///
/// Twin (compiles): only one conversion.
/// ```
/// use fastcgi_server::parser::request::Parser;
/// fn convert(p: Parser<'_>) {
///     let s = p.into_stream_parser();
/// }
/// ```
pub mod c05_conversions_consume {}

/// C05 — likewise for the stream parser.
///
/// ```compile_fail,E0382
/// use fastcgi_server::parser::stream::Parser;
/// fn convert(p: Parser<'_>) {
///     let r = p.into_request_parser();
///     let _ = p.into_input(); // use after move
/// }
/// ```
///
/// Twin (compiles).
/// ```
/// use fastcgi_server::parser::stream::Parser;
/// fn convert(p: Parser<'_>) {
///     let r = p.into_request_parser();
/// }
/// ```
pub mod c05_stream_conversions_consume {}

/// C16 — decoded pairs are sub-slices of the input (zero-copy): they cannot outlive the buffer.
///
/// ```compile_fail,E0597
/// use fastcgi_server::protocol::nv::NVIter;
/// let pair;
/// {
///     let buf = vec![1u8, 1, b'a', b'b'];
///     pair = NVIter::new(&buf[..]).next(); // `buf` does not live long enough
/// }
/// drop(pair);
/// ```
///
/// Twin (compiles): the pair is used while the buffer is alive.
/// ```
/// use fastcgi_server::protocol::nv::NVIter;
/// let pair;
/// {
///     let buf = vec![1u8, 1, b'a', b'b'];
///     pair = NVIter::new(&buf[..]).next().map(|(n, v)| (n.to_vec(), v.to_vec()));
/// }
/// drop(pair);
/// ```
pub mod c16_pairs_borrow_input {}

/// C18 — the active input stream can only be changed through `set_stream` (the field is private).
///
/// ```compile_fail,E0616
/// use fastcgi_server::parser::stream::Parser;
/// use fastcgi_server::protocol::RecordType;
/// fn force(p: &mut Parser<'_>) {
///     p.stream = Some(RecordType::Data);
/// }
/// ```
///
/// Twin (compiles): the public API.
/// ```
/// use fastcgi_server::parser::stream::Parser;
/// use fastcgi_server::protocol::RecordType;
/// fn force(p: &mut Parser<'_>) {
///     let _ = p.set_stream(Some(RecordType::Data));
/// }
/// ```
pub mod c18_stream_field_private {}

/// C01 — the request environment can only be filled by the parser (the map is private).
///
/// ```compile_fail,E0616
/// use fastcgi_server::parser::Request;
/// fn peek(r: &Request) -> usize {
///     r.params.len()
/// }
/// ```
///
/// Twin (compiles).
/// ```
/// use fastcgi_server::parser::Request;
/// fn peek(r: &Request) -> usize {
///     r.env_len()
/// }
/// ```
pub mod c01_params_private {}
